package main

import (
	"os"
	"path/filepath"
	"regexp"
	"sort"
	"strings"
)

type raceReport struct {
	Key  string
	Text string
	N    int
}

var funcLine = regexp.MustCompile(`^\s+([^\s]+)\(\)$`)

// collectRaces parses every race-detector log of the run, keeps reports with
// at least one frame in package sod and deduplicates them by the pair of
// outermost sod entry points and the pair of innermost sod functions
// (DESIGN M6).
func collectRaces(scratch string) []raceReport {
	files, _ := filepath.Glob(filepath.Join(scratch, "*.race.*"))
	byKey := map[string]*raceReport{}
	harnessOnly := 0
	for _, f := range files {
		b, err := os.ReadFile(f)
		if err != nil {
			continue
		}
		for _, blk := range strings.Split(string(b), "==================") {
			if !strings.Contains(blk, "WARNING: DATA RACE") {
				continue
			}
			// split into stacks: paragraphs separated by blank lines
			var stacks [][]string
			for _, para := range strings.Split(blk, "\n\n") {
				var fns []string
				for _, l := range strings.Split(para, "\n") {
					if m := funcLine.FindStringSubmatch(l); m != nil {
						fns = append(fns, m[1])
					}
				}
				if len(fns) > 0 {
					stacks = append(stacks, fns)
				}
			}
			var parts []string
			for i, st := range stacks {
				if i >= 2 { // the two accesses; later paragraphs are goroutine creation stacks
					break
				}
				inner, outer := "", ""
				for _, fn := range st {
					if j := strings.Index(fn, "github.com/0xrawsec/sod."); j >= 0 && !strings.Contains(strings.ToLower(fn), "verif") {
						s := fn[j+len("github.com/0xrawsec/sod."):]
						s = strings.NewReplacer("(*", "", ")", "").Replace(s)
						if k := strings.Index(s, ".func"); k > 0 {
							s = s[:k]
						}
						if inner == "" {
							inner = s
						}
						outer = s
					}
				}
				if inner != "" {
					parts = append(parts, inner+"<"+outer)
				}
			}
			if len(parts) == 0 {
				harnessOnly++
				continue
			}
			sort.Strings(parts)
			key := strings.Join(parts, "~")
			if r, ok := byKey[key]; ok {
				r.N++
			} else {
				t := blk
				if len(t) > 6000 {
					t = t[:6000]
				}
				byKey[key] = &raceReport{Key: key, Text: t, N: 1}
			}
		}
	}
	var out []raceReport
	for _, r := range byKey {
		out = append(out, *r)
	}
	sort.Slice(out, func(i, j int) bool { return out[i].Key < out[j].Key })
	if harnessOnly > 0 {
		out = append(out, raceReport{Key: "HARNESS-ONLY", Text: "race reports without any sod frame (harness bug)", N: harnessOnly})
	}
	return out
}
