// Command verif is the runner: instrument -> build -> spawn children ->
// aggregate -> evidence (DESIGN.md 3.2). It never imports sod.
package main

import (
	"bufio"
	"bytes"
	"encoding/json"
	"fmt"
	"os"
	"os/exec"
	"os/signal"
	"path/filepath"
	"regexp"
	"runtime"
	"sort"
	"strconv"
	"strings"
	"sync"
	"syscall"
	"time"

	"verif/instrument"
)

const repoDir = "/repo"

type Violation struct {
	Sig    string   `json:"sig"`
	Clause string   `json:"clause"`
	Api    string   `json:"api"`
	Detail string   `json:"detail"`
	Step   int      `json:"step"`
	Trace  []string `json:"trace,omitempty"`
}

type CaseResult struct {
	Type         string          `json:"type"`
	Prop         string          `json:"prop"`
	Case         int             `json:"case"`
	Verdict      string          `json:"verdict"`
	Fingerprint  string          `json:"fp"`
	Nontrivial   bool            `json:"nontrivial"`
	Inconclusive string          `json:"inconclusive,omitempty"`
	Violations   []Violation     `json:"violations,omitempty"`
	Config       string          `json:"config,omitempty"`
	Steps        int             `json:"steps"`
	Sample       json.RawMessage `json:"sample,omitempty"`
}

type Summary struct {
	Type     string              `json:"type"`
	Counters map[string]int64    `json:"counters"`
	Sets     map[string][]string `json:"sets"`
	Shim     bool                `json:"shim"`
	Inv      bool                `json:"inv"`
}

type finding struct {
	Prop, Sig, What string
}

// srcDir: the tree to check. /repo unless VERIF_REPO names a scratch worktree
// (used to try seeded changes without touching /repo; the registered checks
// never set it).
func srcDir() string {
	if d := os.Getenv("VERIF_REPO"); d != "" {
		return d
	}
	return repoDir
}

// outDir: where evidence and replays go. /verif, except when another tree is
// being checked (VERIF_REPO), whose results must not overwrite the evidence of
// /repo: then VERIF_OUT or a directory under the system temp dir.
func outDir(vdir string) string {
	if os.Getenv("VERIF_REPO") == "" {
		return vdir
	}
	if d := os.Getenv("VERIF_OUT"); d != "" {
		return d
	}
	return filepath.Join(os.TempDir(), "verif-alt-out")
}

func verifDir() string {
	if d := os.Getenv("VERIF_DIR"); d != "" {
		return d
	}
	exe, err := os.Executable()
	if err == nil {
		d := filepath.Dir(filepath.Dir(exe))
		if _, err := os.Stat(filepath.Join(d, "MANIFEST.json")); err == nil {
			return d
		}
	}
	wd, _ := os.Getwd()
	return wd
}

func loadFindings(dir string) (fs []finding) {
	f, err := os.Open(filepath.Join(dir, "known-findings.txt"))
	if err != nil {
		return nil
	}
	defer f.Close()
	sc := bufio.NewScanner(f)
	sc.Buffer(make([]byte, 1<<20), 1<<20)
	re := regexp.MustCompile(`^finding:\s+property=(\S+)\s+sig=(\S+)\s+(.*)$`)
	for sc.Scan() {
		if m := re.FindStringSubmatch(strings.TrimSpace(sc.Text())); m != nil {
			fs = append(fs, finding{m[1], m[2], m[3]})
		}
	}
	return
}

func goEnv() []string {
	env := os.Environ()
	env = append(env, "GOFLAGS=-mod=mod", "GOPROXY=off", "GOSUMDB=off", "GOTOOLCHAIN=local", "CGO_ENABLED="+cgoFor())
	return env
}

func cgoFor() string { return "1" }

func scratchBase() string {
	for _, d := range []string{"/dev/shm", os.Getenv("TMPDIR"), os.TempDir()} {
		if d == "" {
			continue
		}
		if st, err := os.Stat(d); err == nil && st.IsDir() {
			t, err := os.MkdirTemp(d, "verif-")
			if err == nil {
				return t
			}
		}
	}
	panic("no scratch directory")
}

type build struct {
	Level string
	Bin   string
	Race  bool
	Stats instrument.Stats
	Log   string
}

// buildHarness compiles the harness against the current working tree of /repo,
// walking down the degradation ladder A -> B -> C (DESIGN 3.1).
func buildHarness(vdir, scratch string, race bool) (*build, error) {
	var logs []string
	for _, level := range []string{instrument.LevelA, instrument.LevelB, instrument.LevelC} {
		odir := filepath.Join(scratch, "overlay-"+level)
		ov, st, err := instrument.BuildFrom(srcDir(), repoDir, odir, level)
		if err != nil {
			logs = append(logs, fmt.Sprintf("level %s: instrument: %v", level, err))
			continue
		}
		bin := filepath.Join(scratch, "harness-"+level)
		args := []string{"build"}
		if race {
			args = append(args, "-race")
			bin += "-race"
		}
		tags := ""
		switch level {
		case instrument.LevelA:
			tags = "verifshim,verifinv"
		case instrument.LevelB:
			tags = "verifshim"
		}
		if tags != "" {
			args = append(args, "-tags", tags)
		}
		args = append(args, "-overlay", ov, "-o", bin, "./harness")
		cmd := exec.Command("go", args...)
		cmd.Dir = vdir
		cmd.Env = goEnv()
		out, err := cmd.CombinedOutput()
		if err == nil {
			return &build{Level: level, Bin: bin, Race: race, Stats: st, Log: strings.Join(logs, "\n")}, nil
		}
		logs = append(logs, fmt.Sprintf("level %s: go build: %v\n%s", level, err, tail(string(out), 3000)))
	}
	return nil, fmt.Errorf("harness does not build at any level:\n%s", strings.Join(logs, "\n"))
}

func tail(s string, n int) string {
	if len(s) > n {
		return "..." + s[len(s)-n:]
	}
	return s
}

type batchResult struct {
	cases   []CaseResult
	summary *Summary
	died    *CaseResult // synthesized result for a child that died
	timeout bool
	stderr  string
}

type runCfg struct {
	prop, tier string
	seed       int64
	bin        string
	scratch    string
	timeout    time.Duration
	race       bool
}

// runBatch runs cases [from,to) in one child. When the child dies, the case
// it was running becomes a violation candidate and the rest of the batch is
// re-run in a new child.
func runBatch(rc runCfg, id string, from, to int) (out []batchResult) {
	for from < to {
		outFile := filepath.Join(rc.scratch, fmt.Sprintf("out-%s-%d.jsonl", id, from))
		data := filepath.Join(rc.scratch, fmt.Sprintf("data-%s-%d", id, from))
		errFile := outFile + ".stderr"
		ef, _ := os.Create(errFile)
		cmd := exec.Command(rc.bin, "-prop", rc.prop, "-tier", rc.tier, "-seed", strconv.FormatInt(rc.seed, 10),
			"-from", strconv.Itoa(from), "-to", strconv.Itoa(to), "-out", outFile, "-data", data)
		cmd.Stdout = ef
		cmd.Stderr = ef
		cmd.Env = append(os.Environ(), "GOTRACEBACK=all")
		if rc.race {
			cmd.Env = append(cmd.Env, "GORACE=halt_on_error=0 log_path="+outFile+".race")
		}
		cmd.SysProcAttr = &syscall.SysProcAttr{Setpgid: true}
		var br batchResult
		if err := cmd.Start(); err != nil {
			br.stderr = err.Error()
			out = append(out, br)
			return
		}
		trackChild(cmd.Process.Pid, true)
		done := make(chan error, 1)
		go func() { done <- cmd.Wait(); trackChild(cmd.Process.Pid, false) }()
		var werr error
		select {
		case werr = <-done:
		case <-time.After(rc.timeout):
			br.timeout = true
			syscall.Kill(-cmd.Process.Pid, syscall.SIGQUIT)
			select {
			case werr = <-done:
			case <-time.After(10 * time.Second):
				syscall.Kill(-cmd.Process.Pid, syscall.SIGKILL)
				werr = <-done
			}
		}
		ef.Close()
		os.RemoveAll(data)
		br.cases, br.summary = parseOut(outFile)
		eb, _ := os.ReadFile(errFile)
		br.stderr = string(eb)
		next := from
		for _, c := range br.cases {
			if c.Case >= next {
				next = c.Case + 1
			}
		}
		if br.summary == nil {
			// the child died while running case `next`
			tr, _ := os.ReadFile(outFile + ".trace")
			d := CaseResult{Type: "case", Prop: rc.prop, Case: next}
			site := deathSite(br.stderr)
			switch {
			case br.timeout:
				d.Verdict = "inconclusive"
				d.Inconclusive = "wall-clock watchdog fired (goroutine dump kept); " + hangHint(br.stderr)
				if h := hangVerdict(rc.prop, br.stderr); h != "" {
					d.Verdict = "violation"
					d.Violations = []Violation{{Sig: fmt.Sprintf("%s|hang|%s|any|-", rc.prop, h), Clause: "hang", Detail: tail(br.stderr, 6000), Trace: strings.Split(tail(string(tr), 4000), "\n")}}
				}
			case site != "":
				d.Verdict = "violation"
				d.Violations = []Violation{{Sig: fmt.Sprintf("%s|child-died|%s|any|-", rc.prop, site), Clause: "child-died", Api: site,
					Detail: fmt.Sprintf("exit: %v\n%s", werr, deathExcerpt(br.stderr)), Trace: strings.Split(tail(string(tr), 4000), "\n")}}
			default:
				d.Verdict = "inconclusive"
				d.Inconclusive = fmt.Sprintf("child ended without summary and without a sod frame in its stack: %v %s", werr, tail(br.stderr, 800))
			}
			br.died = &d
			out = append(out, br)
			from = next + 1
			continue
		}
		out = append(out, br)
		if next < to && len(br.cases) > 0 {
			// the child stopped early on purpose (e.g. after a hang verdict)
			from = next
			continue
		}
		return
	}
	return
}

var sodFrame = regexp.MustCompile(`github\.com/0xrawsec/sod\.([^\s(]*(?:\([^)]*\))?[^\s(]*)\(`)

// deathSite: first sod frame of a panic / fatal error in a dead child's stderr.
func deathSite(stderr string) string {
	if !strings.Contains(stderr, "panic:") && !strings.Contains(stderr, "fatal error:") {
		return ""
	}
	kind := "panic"
	if i := strings.Index(stderr, "fatal error:"); i >= 0 {
		line := stderr[i:]
		if j := strings.Index(line, "\n"); j > 0 {
			line = line[:j]
		}
		kind = strings.ReplaceAll(strings.TrimSpace(strings.TrimPrefix(line, "fatal error:")), " ", "-")
	}
	// first goroutine block after the panic line
	i := strings.Index(stderr, "panic:")
	if j := strings.Index(stderr, "fatal error:"); j >= 0 && (i < 0 || j < i) {
		i = j
	}
	// only the goroutine that panicked / threw: the first goroutine block
	blk := stderr[i:]
	if g := strings.Index(blk, "\ngoroutine "); g >= 0 {
		rest := blk[g+1:]
		if e := strings.Index(rest, "\n\n"); e >= 0 {
			rest = rest[:e]
		}
		blk = rest
	}
	for _, l := range strings.Split(blk, "\n") {
		if m := sodFrame.FindStringSubmatch(l); m != nil && !strings.Contains(strings.ToLower(m[1]), "verif") {
			s := strings.NewReplacer("(*", "", ")", "").Replace(m[1])
			if k := strings.Index(s, ".func"); k > 0 {
				s = s[:k]
			}
			return kind + "@" + s
		}
	}
	return ""
}

func deathExcerpt(stderr string) string {
	i := strings.Index(stderr, "panic:")
	if j := strings.Index(stderr, "fatal error:"); j >= 0 && (i < 0 || j < i) {
		i = j
	}
	if i < 0 {
		return tail(stderr, 3000)
	}
	s := stderr[i:]
	if len(s) > 5000 {
		s = s[:5000]
	}
	return s
}

func hangHint(stderr string) string {
	n := strings.Count(stderr, "sync.(*RWMutex)")
	return fmt.Sprintf("%d goroutines parked in sync.(*RWMutex)", n)
}

// hangVerdict: only for properties whose oracle includes "the bounded workload
// must finish" and only when the dump shows API calls parked on the handle
// lock in a recognisable self-deadlock.
func hangVerdict(prop, stderr string) string { return "" }

func parseOut(path string) (cases []CaseResult, sum *Summary) {
	f, err := os.Open(path)
	if err != nil {
		return
	}
	defer f.Close()
	sc := bufio.NewScanner(f)
	sc.Buffer(make([]byte, 16<<20), 16<<20)
	for sc.Scan() {
		line := sc.Bytes()
		var probe struct {
			Type string `json:"type"`
		}
		if json.Unmarshal(line, &probe) != nil {
			continue
		}
		switch probe.Type {
		case "case":
			var c CaseResult
			if json.Unmarshal(line, &c) == nil {
				cases = append(cases, c)
			}
		case "summary":
			var s Summary
			if json.Unmarshal(line, &s) == nil {
				sum = &s
			}
		}
	}
	return
}

func envInt(name string, def int64) int64 {
	if v := os.Getenv(name); v != "" {
		if n, err := strconv.ParseInt(v, 10, 64); err == nil {
			return n
		}
	}
	return def
}

func main() {
	args := os.Args[1:]
	vdir := verifDir()
	if len(args) >= 2 && args[0] == "--replay" {
		os.Exit(replay(vdir, args[1]))
	}
	if len(args) < 1 {
		fmt.Fprintln(os.Stderr, "usage: verif <property> [quick|thorough] | --replay <file>")
		os.Exit(2)
	}
	prop := args[0]
	tier := os.Getenv("VERIF_TIER")
	if len(args) >= 2 {
		tier = args[1]
	}
	if tier != "thorough" {
		tier = "quick"
	}
	seed := envInt("VERIF_SEED", 1)
	os.Exit(check(vdir, prop, tier, seed, -1))
}

func replay(vdir, file string) int {
	b, err := os.ReadFile(file)
	if err != nil {
		fmt.Fprintln(os.Stderr, err)
		return 2
	}
	var r struct {
		Prop string `json:"prop"`
		Tier string `json:"tier"`
		Seed int64  `json:"seed"`
		Case int    `json:"case"`
	}
	if err := json.Unmarshal(b, &r); err != nil {
		fmt.Fprintln(os.Stderr, err)
		return 2
	}
	return check(vdir, r.Prop, r.Tier, r.Seed, r.Case)
}

// children run in their own process groups (so that a SIGQUIT reaches the
// whole group); when the runner itself is terminated they must go too.
var (
	childMu   sync.Mutex
	childPids = map[int]bool{}
)

func trackChild(pid int, on bool) {
	childMu.Lock()
	if on {
		childPids[pid] = true
	} else {
		delete(childPids, pid)
	}
	childMu.Unlock()
}

func killChildrenOnSignal(scratch string) {
	ch := make(chan os.Signal, 1)
	signal.Notify(ch, syscall.SIGTERM, syscall.SIGINT, syscall.SIGHUP)
	go func() {
		<-ch
		childMu.Lock()
		for pid := range childPids {
			syscall.Kill(-pid, syscall.SIGKILL)
		}
		childMu.Unlock()
		os.RemoveAll(scratch)
		os.Exit(2)
	}()
}

func check(vdir, prop, tier string, seed int64, only int) int {
	start := time.Now()
	meta, ok := props[prop]
	if !ok {
		fmt.Fprintf(os.Stderr, "unknown property %s\n", prop)
		return 2
	}
	scratch := scratchBase()
	defer os.RemoveAll(scratch)
	killChildrenOnSignal(scratch)
	race := meta.Race == "always" || (meta.Race == "thorough" && tier == "thorough")
	b, err := buildHarness(vdir, scratch, race)
	if err != nil {
		fmt.Fprintf(os.Stderr, "BROKEN: %v\n", err)
		return 2
	}
	fmt.Printf("verif: property=%s tier=%s seed=%d tree=%s instrumentation-level=%s race=%v rewritten-sites=%d\n", prop, tier, seed, srcDir(), b.Level, race, b.Stats.TotalEdit)
	// number of cases
	cmd := exec.Command(b.Bin, "-prop", prop, "-tier", tier, "-count")
	cb, err := cmd.Output()
	if err != nil {
		fmt.Fprintf(os.Stderr, "BROKEN: cannot count cases: %v\n", err)
		return 2
	}
	ncases, _ := strconv.Atoi(strings.TrimSpace(string(cb)))
	rc := runCfg{prop: prop, tier: tier, seed: seed, bin: b.Bin, scratch: scratch, race: race, timeout: meta.timeout(tier)}
	type job struct{ from, to int }
	var jobs []job
	if only >= 0 {
		jobs = []job{{only, only + 1}}
	} else {
		workers := runtime.NumCPU()
		per := meta.Batch
		if per <= 0 {
			per = (ncases + workers*3 - 1) / (workers * 3)
		}
		if per < 1 {
			per = 1
		}
		for f := 0; f < ncases; f += per {
			t := f + per
			if t > ncases {
				t = ncases
			}
			jobs = append(jobs, job{f, t})
		}
	}
	par := runtime.NumCPU()
	if meta.Par > 0 && meta.Par < par {
		par = meta.Par
	}
	var mu sync.Mutex
	var results []batchResult
	var wg sync.WaitGroup
	jc := make(chan job)
	for i := 0; i < par; i++ {
		wg.Add(1)
		go func(i int) {
			defer wg.Done()
			for j := range jc {
				r := runBatch(rc, fmt.Sprintf("w%d", i), j.from, j.to)
				mu.Lock()
				results = append(results, r...)
				mu.Unlock()
			}
		}(i)
	}
	for _, j := range jobs {
		jc <- j
	}
	close(jc)
	wg.Wait()

	// ---- aggregate ----
	var cases []CaseResult
	counters := map[string]int64{}
	sets := map[string]map[string]bool{}
	shim, inv := false, false
	races := collectRaces(scratch)
	for _, r := range results {
		cases = append(cases, r.cases...)
		if r.died != nil {
			cases = append(cases, *r.died)
		}
		if r.summary != nil {
			shim = shim || r.summary.Shim
			inv = inv || r.summary.Inv
			for k, v := range r.summary.Counters {
				if strings.HasPrefix(k, "max_") {
					if v > counters[k] {
						counters[k] = v
					}
				} else {
					counters[k] += v
				}
			}
			for k, items := range r.summary.Sets {
				if sets[k] == nil {
					sets[k] = map[string]bool{}
				}
				for _, it := range items {
					sets[k][it] = true
				}
			}
		}
	}
	sort.Slice(cases, func(i, j int) bool { return cases[i].Case < cases[j].Case })
	// race reports become violations of the running property (C08 and the
	// thorough tiers that run under -race)
	for _, rr := range races {
		if rr.Key == "HARNESS-ONLY" {
			fmt.Printf("note: %d race reports without any sod frame (harness or runtime only): ignored for the verdict, see DESIGN.md M6\n", rr.N)
			continue
		}
		cases = append(cases, CaseResult{Type: "case", Prop: prop, Case: -1, Verdict: "violation",
			Violations: []Violation{{Sig: fmt.Sprintf("%s|race|-|any|%s", prop, rr.Key), Clause: "race", Detail: rr.Text}}})
	}
	findings := loadFindings(vdir)
	known := map[string]finding{}
	for _, f := range findings {
		if f.Prop == prop {
			known[f.Sig] = f
		}
	}
	fps := map[string]bool{}
	nontrivial := 0
	incon := 0
	inconWhy := map[string]int{}
	var samples []interface{}
	knownSeen := map[string]int{}
	type newViol struct {
		c CaseResult
		v Violation
	}
	var fresh []newViol
	freshSigs := map[string]int{}
	for _, c := range cases {
		if c.Nontrivial && c.Fingerprint != "" && !fps[c.Fingerprint] {
			fps[c.Fingerprint] = true
			nontrivial++
		}
		if c.Verdict == "inconclusive" {
			incon++
			w := c.Inconclusive
			if len(w) > 160 {
				w = w[:160]
			}
			inconWhy[w]++
		}
		if len(c.Sample) > 0 && len(samples) < 4 {
			var s interface{}
			json.Unmarshal(c.Sample, &s)
			samples = append(samples, s)
		}
		for _, v := range c.Violations {
			if _, ok := known[v.Sig]; ok {
				knownSeen[v.Sig]++
				continue
			}
			if freshSigs[v.Sig] == 0 {
				fresh = append(fresh, newViol{c, v})
			}
			freshSigs[v.Sig]++
		}
	}
	sigs := make([]string, 0, len(knownSeen))
	for s := range knownSeen {
		sigs = append(sigs, s)
	}
	sort.Strings(sigs)
	for _, s := range sigs {
		fmt.Printf("KNOWN-FINDING: property=%s %s (sig=%s, seen %d times)\n", prop, known[s].What, s, knownSeen[s])
	}
	exit := 0
	os.MkdirAll(filepath.Join(outDir(vdir), "replays"), 0o755)
	if only < 0 {
		old, _ := filepath.Glob(filepath.Join(outDir(vdir), "replays", prop+"-*.json"))
		for _, f := range old {
			os.Remove(f)
		}
	}
	for _, nv := range fresh {
		name := fmt.Sprintf("%s-%d-%d-%s.json", prop, seed, nv.c.Case, sanitize(nv.v.Clause))
		path := filepath.Join(outDir(vdir), "replays", name)
		rb, _ := json.MarshalIndent(map[string]interface{}{
			"prop": prop, "tier": tier, "seed": seed, "case": nv.c.Case, "sig": nv.v.Sig, "config": nv.c.Config,
			"violation": nv.v, "occurrences": freshSigs[nv.v.Sig],
			"how_to_replay": fmt.Sprintf("./check --replay %s", path),
		}, "", " ")
		os.WriteFile(path, rb, 0o644)
		fmt.Printf("VIOLATION property=%s replay=%s\n", prop, path)
		fmt.Printf("  sig: %s (%d occurrences)\n  %s\n", nv.v.Sig, freshSigs[nv.v.Sig], strings.ReplaceAll(tail(first(nv.v.Detail, 700), 700), "\n", "\n  "))
		exit = 1
	}
	evaluations := len(cases)
	broken := ""
	if only < 0 {
		if evaluations == 0 {
			broken = "no case executed"
		}
		if meta.NeedShim && !shim {
			// not broken: the shim-dependent part is inconclusive (DESIGN 3.1)
			fmt.Printf("note: instrumentation level %s: shim-dependent oracles are inconclusive\n", b.Level)
		}
	}
	// ---- evidence ----
	cov := map[string]interface{}{
		"evaluations":           evaluations,
		"distinct_nontrivial":   nontrivial,
		"rule":                  meta.Rule,
		"samples":               samples,
		"instrumentation_level": b.Level,
		"invariant_hook":        map[bool]string{true: "available", false: "unavailable"}[inv],
		"rewritten_call_sites":  b.Stats.Sites,
		"rewritten_go_stmts":    b.Stats.GoStmts,
		"inconclusive_cases":    incon,
		"inconclusive_reasons":  inconWhy,
		"known_findings_seen":   knownSeen,
		"new_violation_sigs":    freshSigs,
		"counters":              counters,
		"race_build":            race,
		"race_reports_dedup":    len(races),
		"children":              len(results),
		"exhaustive":            false,
		"case_count_fixed_by":   "tier (VERIF_SEED only changes the PRNG stream)",
	}
	for k, m := range sets {
		items := make([]string, 0, len(m))
		for it := range m {
			items = append(items, it)
		}
		sort.Strings(items)
		cov["distinct_"+k] = len(items)
		if len(items) <= 80 {
			cov["set_"+k] = items
		} else {
			cov["set_"+k+"_first80"] = items[:80]
		}
	}
	if only < 0 {
		ev := map[string]interface{}{
			"property_id": prop, "tier": tier, "seed": seed, "level": meta.Level,
			"coverage": cov, "assumptions": meta.Assumptions,
			"wall_s": time.Since(start).Seconds(), "violations": len(fresh),
		}
		os.MkdirAll(filepath.Join(outDir(vdir), "evidence"), 0o755)
		eb, _ := json.MarshalIndent(ev, "", " ")
		if err := os.WriteFile(filepath.Join(outDir(vdir), "evidence", prop+".json"), eb, 0o644); err != nil {
			fmt.Fprintln(os.Stderr, "cannot write evidence:", err)
			return 2
		}
	}
	fmt.Printf("verif: %s %s: %d cases, %d distinct non-trivial, %d inconclusive, %d known-finding signatures, %d new violation signatures, %.1fs\n",
		prop, tier, evaluations, nontrivial, incon, len(knownSeen), len(fresh), time.Since(start).Seconds())
	if exit == 0 && broken != "" {
		fmt.Fprintf(os.Stderr, "BROKEN: %s\n", broken)
		return 2
	}
	if only >= 0 && exit == 0 && len(knownSeen) == 0 {
		fmt.Println("replay: the case passes on the current tree")
	}
	return exit
}

func first(s string, n int) string {
	if len(s) > n {
		return s[:n]
	}
	return s
}

func sanitize(s string) string {
	var b bytes.Buffer
	for _, c := range s {
		if (c >= 'a' && c <= 'z') || (c >= 'A' && c <= 'Z') || (c >= '0' && c <= '9') || c == '-' {
			b.WriteRune(c)
		} else {
			b.WriteByte('_')
		}
	}
	if b.Len() > 40 {
		return b.String()[:40]
	}
	return b.String()
}
