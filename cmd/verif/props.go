package main

import "time"

type propMeta struct {
	Level       string // evidence level
	Rule        string
	Assumptions []string
	Race        string // "", "always", "thorough"
	NeedShim    bool
	Batch       int // cases per child (0: auto)
	Par         int // max parallel children (0: all cores)
	QuickTO     time.Duration
	ThoroughTO  time.Duration
}

func (m propMeta) timeout(tier string) time.Duration {
	if tier == "thorough" {
		if m.ThoroughTO > 0 {
			return m.ThoroughTO
		}
		return 40 * time.Minute
	}
	if m.QuickTO > 0 {
		return m.QuickTO
	}
	return 10 * time.Minute
}

var commonAssumptions = []string{
	"the harness, its reference model and the overlay shim are trusted; the model was written from the property statements, not from sod's code",
	"verdicts cover the executions produced by this run only (sampled histories / schedules), never all of them",
	"files live on tmpfs (/dev/shm); OS-level durability (fsync, power loss) is outside every property's crash model",
}

var props = map[string]propMeta{
	"C01": {Level: "exploration", Rule: "case k = PRNG(seed, C01, k): a drawn configuration (cache/gzip/async/lower-case names/extension/index+unique+case subset) and a history of 8-40 steps over insert/update/resave/delete/delete-absent/reinsert/many/bulk/search-delete/delete-all/close-reopen/abandon/create-again/flush/tick; after every step every read path is compared with the model, absent lookups are tried twice, the directory is decoded independently. Non-trivial: >= 2 accepted writes, >= 2 objects stored at once, >= 5 steps; distinct = fingerprint of (configuration, abstract op sequence with outcomes, uuids renamed by slot)",
		Assumptions: commonAssumptions},
}
