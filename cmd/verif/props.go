package main

import "time"

type propMeta struct {
	Level       string // evidence level
	Rule        string
	Assumptions []string
	Race        string // "", "always", "thorough"
	NeedShim    bool
	Batch       int // cases per child (0: auto)
	Par         int // max parallel children (0: all cores)
	QuickTO     time.Duration
	ThoroughTO  time.Duration
}

func (m propMeta) timeout(tier string) time.Duration {
	if tier == "thorough" {
		if m.ThoroughTO > 0 {
			return m.ThoroughTO
		}
		return 12 * time.Minute
	}
	if m.QuickTO > 0 {
		return m.QuickTO
	}
	return 4 * time.Minute
}

var commonAssumptions = []string{
	"the harness, its reference model and the overlay shim are trusted; the model was written from the property statements, not from sod's code",
	"verdicts cover the executions produced by this run only (sampled histories / schedules), never all of them",
	"files live on tmpfs (/dev/shm); OS-level durability (fsync, power loss) is outside every property's crash model",
}

var props = map[string]propMeta{
	"C01": {Level: "exploration", Rule: "case k = PRNG(seed, C01, k): a drawn configuration (cache/gzip/async/lower-case names/extension/index+unique+case subset) and a history of 8-40 steps over insert/update/resave/delete/delete-absent/reinsert/many/bulk/search-delete/delete-all/close-reopen/abandon/create-again/flush/tick; after every step every read path is compared with the model, absent lookups are tried twice, the directory is decoded independently. Non-trivial: >= 2 accepted writes, >= 2 objects stored at once, >= 5 steps; distinct = fingerprint of (configuration, abstract op sequence with outcomes, uuids renamed by slot)",
		Assumptions: commonAssumptions},
	"C02": {Level: "exploration", Rule: "case k: a drawn configuration and a content built by a history (inserts, updates that move objects inside indexes, deletes, batches, reopen; shapes empty / one element / all-equal forced every 8th case); then the full search matrix (31 field paths incl. nested, nil-pointer, embedded, promoted; 7 operators; probes = stored values, neighbours, type extremes, absent values) is compared with brute-force evaluation over the model, 40 random And/Or chains of length 2-4 are folded over the model, earlier queries are re-run (queries must be read-only), the index invariant hook is evaluated, and 3 search-deletes are followed by a comparison of the collection. Non-trivial: the matrix was evaluated; distinct = fingerprint of configuration + content history",
		Assumptions: commonAssumptions},
	"C03": {Level: "exploration", Rule: "case k: configuration with 1-6 unique fields (int, string with upper/lower, uint8, int64, float64, time, embedded int) and a history biased to conflicts (update onto another object's key, re-save unchanged, delete-then-reuse, reopen-then-reuse, case variants); the model predicts accept/reject of every write (iff), pairwise uniqueness over All() and the index invariant hook are evaluated after every step. Non-trivial: >= 1 write rejected by uniqueness and >= 3 accepted; distinct = fingerprint of configuration + op sequence with outcomes",
		Assumptions: commonAssumptions},
	"C04": {Level: "exploration", Rule: "case k: history cut into 2-5 segments; at each cut the full observation (count, all objects, Get/Exist per uuid, 40 random + equality/range probes on every stored 64-bit and time value with result ORDER, AssignIndex of every indexed field) is taken on the old handle, the handle is closed (or abandoned without Close in synchronous mode) and the same observation on a new handle must be identical, and agree with the model that never restarted; then more writes follow. Non-trivial: >= 1 reopen with >= 2 accepted writes; distinct = fingerprint of configuration + op sequence",
		Assumptions: commonAssumptions},
	"C07": {Level: "exploration", Rule: "case k: history dominated by InsertOrUpdateMany / InsertOrUpdateBulk (sizes 0-6, offenders at PRNG positions: invalid object, foreign type, conflict with a stored object, conflict between two members, same pointer repeated, updates mixed with inserts; chunk sizes 0,1,2,3,len,len+1); the C07 rule predicts reject / accept / either, the returned count is checked and every read path + sampled searches + the invariant hook must equal the model after each batch. Non-trivial: >= 2 batches of which >= 1 rejected; distinct = fingerprint of configuration + op sequence with outcomes",
		Assumptions: commonAssumptions},
	"C13": {Level: "exploration", Rule: "case k: content with heavy ties built by a history; for every indexed field 10 queries (single comparison or And chain of length 2-3 ending on that field): Collect must be non-increasing in the field, Reverse non-decreasing over the same set, Limit(n) and Reverse().Limit(n) for n in {0,1,m-1,m,m+1,random,MaxUint64} must be the prefix of the sequence an identical fresh search returns, One/AssignOne the first element or the no-object error; AssignIndex of every indexed field must be the multiset of the model's values in non-increasing order. Non-trivial: >= 1 ordered query on >= 2 objects; distinct = fingerprint of configuration + content history",
		Assumptions: append([]string{"order among ties is unspecified; only determinism between two identical searches on an unchanged collection is used (a case where that fails is inconclusive)"}, commonAssumptions...)},
	"C15": {Level: "exploration", Rule: "case k: history over single, batch and chunked insertion with 25% invalid objects whose validity depends on the transformed value (Tr trimmed by Transform, Up/Lo canonicalised by the schema); a per-object call log checks Transform precedes Validate and Validate saw the transformed + canonicalised value; the model predicts ErrInvalidObject; invalid objects are looked up everywhere; every read must return the transformed value. Non-trivial: >= 1 invalid write and >= 2 accepted; distinct = fingerprint of configuration + op sequence with outcomes",
		Assumptions: commonAssumptions},
	"C16": {Level: "exploration", Rule: "case k: configuration with upper/lower on string paths at depth 0,1,2, through nil pointers and an embedded struct, often on a unique key; strings include case pairs that differ between ToUpper and ToLower; after every step reads must return canonical values, re-saved reads are unchanged, and 3x6 differently-cased probes per step on constrained paths (indexed or not) are compared with the model, which canonicalises probe and stored value with strings.ToUpper/ToLower. Non-trivial: >= 1 constrained path probed and >= 2 accepted writes",
		Assumptions: commonAssumptions},
	"C12": {Level: "exploration", Rule: "case k: one abstract history (objects named by creation slot, choices driven by the configuration-independent model) replayed under a baseline (all storage flags off, searched fields indexed) and 9 variants (searched fields unindexed; cache; gzip; async with frozen flusher; async with ticking flusher; lower-case names; custom extension; everything on; unindexed+cache+async); after every step a normalised observation (outcome class, Count, All, Get/Exist of the most recent and of a deleted object, 8 model-drawn searches, 4 unevaluable searches: invalid pattern / unknown operator / ill-typed probe / unknown field, Control when nothing is pending) is compared line by line between baseline and variant. Non-trivial: >= 1 compared step and >= 2 accepted writes; distinct = fingerprint of baseline configuration + op sequence",
		Assumptions: commonAssumptions},
	"C20": {Level: "exploration", Rule: "case k: collection grown one by one (2-17 inserts) so that slice appends both reallocate and not; up to 4 rounds: a search (every operator, single or And) is evaluated and a twin collected at once (M0), 1-6 later writes land before/inside/after the range, then the outstanding search is consumed through Collect / Assign / One / Delete / Reverse.Limit: every object must be in M0, at most once, deleted members must be errors or omitted, without error the result is M0 minus deleted; Len must not change; a late Or/And refinement must leave the index intact (invariant hook + 25 searches). Non-trivial: >= 1 scenario with >= 1 write in between",
		Assumptions: commonAssumptions},
	"C11": {Level: "exploration", Rule: "case k: a healthy database of a drawn configuration (checked: no false positive), closed; then an offline fault set: remove 0..all object files, add 0-2 well-formed object files with fresh uuids, remove 0-2 entries consistently from object-ids and every field index of schema.json, remove an entry from one field index only (internal inconsistency), remove schema.json, and combinations; boundary shapes (empty collection, all files gone, only extra files, schema gone, no fault) are forced every 10th case. Oracle: first load and Control report IsIndexCorrupted iff the uuid sets differ (any error for an inconsistent index); Repair succeeds, every object file keeps its hash, nothing is created or deleted, Control then succeeds, and reads + 60 searches equal a model built from the decoded files, also after commit + reopen. Non-trivial: >= 1 fault applied; distinct = fingerprint of configuration + content + fault list",
		Assumptions: commonAssumptions},
	"C18": {Level: "exploration", Rule: "cases 0-35: each of the 12 golden directories written by the pinned release e481c06 (6 configurations x 2 contents, three collections each) is copied and opened lazily / through Create / written to first: the independent decoder checks the golden layout, every read path and the FULL search matrix must equal the manifest, AssignIndex, uniqueness and tag constraints must behave, 12 further writes follow and the directory must reload, pass Control and still obey the layout. Remaining cases: directories written by the current code under drawn configurations are walked by the independent decoder: directory name, <uuid><ext>[.gz] names, gzip iff .gz, file bytes == encoding/json of the object, schema.json keys, [value,id] tuples, exact decimal integers, index values/order vs the model. Non-trivial: golden cases, or >= 2 accepted writes",
		Assumptions: append([]string{"'other versions' is represented by exactly one other build: the pinned release e481c06, whose output is committed under /verif/golden"}, commonAssumptions...)},
	"C14": {Level: "exploration", Rule: "case k: 2-4 objects whose shapes are drawn recursively from the supported kinds (nil/empty/non-empty slices and maps, slices of pointers inside maps, pointer chains, arrays of pointers and of slices, interfaces holding containers, nested structs, time) are stored (single or batch) under cache/async on and off; every mutable location reachable from the caller's object is then scrambled and a read through Get/GetByUUID/All/AssignAll/Search.Collect must equal the snapshot taken at insert time and share no address (pointer targets, slice arrays, maps) with it; the returned object is scrambled and a second read checked the same way; the cached read must equal the decoded file. Non-trivial: >= 1 object with reachable containers; distinct = fingerprint of configuration + shapes",
		Assumptions: append([]string{"exported fields only (the clone's documented exception for unexported pointers is outside the supported kinds); time.Time's shared *Location is not an alias"}, commonAssumptions...), Race: "thorough"},
	"C19": {Level: "exploration", Rule: "argument cases: on empty and non-empty collections a PRNG slice (6%) of the cross product 29 fields (known indexed/unindexed, nested, promoted, empty, unknown, struct-, pointer-, slice-, map-, interface-valued, below-a-scalar, malformed paths) x 13 operators (7 valid, empty, <>, ==, ...) x 26 probe kinds (every Go scalar kind, nil, struct, slice, pointer, map, bad pattern) through Search, And, Or and Operation: no panic, no hang, and a search that reports no error may only return objects satisfying the predicate under the model (none when it cannot be evaluated). File cases: a valid closed directory of a drawn configuration gets 1-2 mutations (byte level on schema.json / object files: truncations, bit flips, NUL runs, garbage; JSON-aware on schema.json: drop/rename/replace nodes, array surgery, bad tuples, ids, casts, durations, object-ids, unsorted index; ill-shaped object JSON, gzip damage; stray entries: no dot, sub-directory, foreign extension, upper-case uuid, dangling symlink, directory named like an object), then ~70 API calls (every method of DB and Search) run on a fresh handle under recover and a CPU-time hang guard. Non-trivial: every case; distinct = fingerprint of configuration + content + mutation classes",
		Assumptions: append([]string{"a hang is decided by CPU time of the call (20 s on a <= 8 object database), never by wall-clock time; a call blocked without CPU is inconclusive"}, commonAssumptions...)},
}
