package main

import "time"

type propMeta struct {
	Level       string // evidence level
	Rule        string
	Assumptions []string
	Race        string // "", "always", "thorough"
	NeedShim    bool
	Batch       int // cases per child (0: auto)
	Par         int // max parallel children (0: all cores)
	QuickTO     time.Duration
	ThoroughTO  time.Duration
}

func (m propMeta) timeout(tier string) time.Duration {
	if tier == "thorough" {
		if m.ThoroughTO > 0 {
			return m.ThoroughTO
		}
		return 12 * time.Minute
	}
	if m.QuickTO > 0 {
		return m.QuickTO
	}
	return 4 * time.Minute
}

var commonAssumptions = []string{
	"the harness, its reference model and the overlay shim are trusted; the model was written from the property statements, not from sod's code",
	"verdicts cover the executions produced by this run only (sampled histories / schedules), never all of them",
	"files live on tmpfs (/dev/shm); OS-level durability (fsync, power loss) is outside every property's crash model",
}

var props = map[string]propMeta{
	"C01": {Level: "exploration", Rule: "case k = PRNG(seed, C01, k): a drawn configuration (cache/gzip/async/lower-case names/extension/index+unique+case subset) and a history of 8-40 steps over insert/update/resave/delete/delete-absent/reinsert/many/bulk/search-delete/delete-all/close-reopen/abandon/create-again/flush/tick; after every step every read path is compared with the model, absent lookups are tried twice, the directory is decoded independently. Non-trivial: >= 2 accepted writes, >= 2 objects stored at once, >= 5 steps; distinct = fingerprint of (configuration, abstract op sequence with outcomes, uuids renamed by slot)",
		Assumptions: commonAssumptions},
	"C02": {Level: "exploration", Rule: "case k: a drawn configuration and a content built by a history (inserts, updates that move objects inside indexes, deletes, batches, reopen; shapes empty / one element / all-equal forced every 8th case); then the full search matrix (31 field paths incl. nested, nil-pointer, embedded, promoted; 7 operators; probes = stored values, neighbours, type extremes, absent values) is compared with brute-force evaluation over the model, 40 random And/Or chains of length 2-4 are folded over the model, earlier queries are re-run (queries must be read-only), the index invariant hook is evaluated, and 3 search-deletes are followed by a comparison of the collection. Non-trivial: the matrix was evaluated; distinct = fingerprint of configuration + content history",
		Assumptions: commonAssumptions},
	"C03": {Level: "exploration", Rule: "case k: configuration with 1-6 unique fields (int, string with upper/lower, uint8, int64, float64, time, embedded int) and a history biased to conflicts (update onto another object's key, re-save unchanged, delete-then-reuse, reopen-then-reuse, case variants); the model predicts accept/reject of every write (iff), pairwise uniqueness over All() and the index invariant hook are evaluated after every step. Non-trivial: >= 1 write rejected by uniqueness and >= 3 accepted; distinct = fingerprint of configuration + op sequence with outcomes",
		Assumptions: commonAssumptions},
	"C04": {Level: "exploration", Rule: "case k: history cut into 2-5 segments; at each cut the full observation (count, all objects, Get/Exist per uuid, 40 random + equality/range probes on every stored 64-bit and time value with result ORDER, AssignIndex of every indexed field) is taken on the old handle, the handle is closed (or abandoned without Close in synchronous mode) and the same observation on a new handle must be identical, and agree with the model that never restarted; then more writes follow. Non-trivial: >= 1 reopen with >= 2 accepted writes; distinct = fingerprint of configuration + op sequence",
		Assumptions: commonAssumptions},
	"C07": {Level: "exploration", Rule: "case k: history dominated by InsertOrUpdateMany / InsertOrUpdateBulk (sizes 0-6, offenders at PRNG positions: invalid object, foreign type, conflict with a stored object, conflict between two members, same pointer repeated, updates mixed with inserts; chunk sizes 0,1,2,3,len,len+1); the C07 rule predicts reject / accept / either, the returned count is checked and every read path + sampled searches + the invariant hook must equal the model after each batch. Non-trivial: >= 2 batches of which >= 1 rejected; distinct = fingerprint of configuration + op sequence with outcomes",
		Assumptions: commonAssumptions},
}
