#!/bin/bash
# tools/evalseed.sh <worktree> <seed-id> <target-property> [extra props...]
# Verifies a seeded change (uncommitted diff + seed_demo_test.go in a scratch worktree of /repo) and
# runs the checks against it through VERIF_REPO (never touches /repo). Writes /verif/seeded/<seed-id>/.
set -u
export GOFLAGS=-mod=mod GOPROXY=off GOSUMDB=off GOTOOLCHAIN=local
WT=$1; ID=$2; shift 2; PROPS="$@"
V=$(cd "$(dirname "$0")/.." && pwd)
OUT=$V/seeded/$ID
mkdir -p $OUT
cd $WT || exit 2
git diff -- . ':(exclude)*_test.go' > $OUT/patch.diff
[ -s $OUT/patch.diff ] || { echo "no source change in $WT"; exit 2; }
cp seed_demo_test.go $OUT/seed_demo_test.go.txt 2>/dev/null
cp SEED_NOTES.md $OUT/SEED_NOTES.md 2>/dev/null
echo "== diff stat"; git diff --stat -- . ':(exclude)*_test.go' | tail -3
echo "== build"; go build ./... && echo build-ok
echo "== demo WITH change (must fail)"
go test -vet=off -count=1 -run '^TestSeedDemo$' . > $OUT/demo_with.log 2>&1; W=$?; tail -3 $OUT/demo_with.log
echo "== demo WITHOUT change (must pass)"
# (git stash is shared between worktrees of one repository: never use it here)
git apply -R $OUT/patch.diff || { echo "cannot reverse the patch"; exit 2; }
go test -vet=off -count=1 -run '^TestSeedDemo$' . > $OUT/demo_without.log 2>&1; WO=$?; tail -3 $OUT/demo_without.log
git apply $OUT/patch.diff || { echo "cannot re-apply the patch"; exit 2; }
echo "== existing suite WITH change (must pass)"
go test -vet=off -count=1 -timeout 25m -skip '^TestSeedDemo$' ./... > $OUT/suite_with.log 2>&1; S=$?; tail -2 $OUT/suite_with.log
echo "demo_with_rc=$W demo_without_rc=$WO suite_rc=$S"
cd $V
RES=""
for p in $PROPS; do
  o=$(VERIF_REPO=$WT VERIF_OUT=/dev/shm/verif-seed-out-$ID timeout 3000 ./check $p quick 2>&1); rc=$?
  echo "== check $p quick rc=$rc: $(echo "$o" | grep -E '^verif: C' | tail -1)"
  echo "$o" | grep -E "sig:" | head -4
  first=$(echo "$o" | grep -E "sig:" | head -1 | sed 's/^ *sig: //')
  RES="$RES $p:quick:rc=$rc:[$first]"
  if [ $rc -eq 0 ]; then
    o=$(VERIF_REPO=$WT VERIF_OUT=/dev/shm/verif-seed-out-$ID timeout 6000 ./check $p thorough 2>&1); rc=$?
    echo "== check $p thorough rc=$rc: $(echo "$o" | grep -E '^verif: C' | tail -1)"
    echo "$o" | grep -E "sig:" | head -4
    first=$(echo "$o" | grep -E "sig:" | head -1 | sed 's/^ *sig: //')
    RES="$RES $p:thorough:rc=$rc:[$first]"
  fi
done
rm -rf /dev/shm/verif-seed-out-$ID
echo "$RES" > $OUT/check_results.txt
echo "RESULTS:$RES"
