// buildharness <outdir> : builds the instrumented harness (level A) for manual debugging
package main

import (
	"fmt"
	"os"
	"os/exec"
	"path/filepath"

	"verif/instrument"
)

func main() {
	out := os.Args[1]
	src := "/repo"
	if d := os.Getenv("VERIF_REPO"); d != "" {
		src = d
	}
	ov, _, err := instrument.BuildFrom(src, "/repo", filepath.Join(out, "ov"), instrument.LevelA)
	if err != nil {
		panic(err)
	}
	args := []string{"build", "-tags", "verifshim,verifinv", "-overlay", ov, "-o", filepath.Join(out, "harness")}
	if len(os.Args) > 2 && os.Args[2] == "race" {
		args = append(args, "-race")
	}
	args = append(args, "./harness")
	cmd := exec.Command("go", args...)
	cmd.Stdout, cmd.Stderr = os.Stdout, os.Stderr
	if err := cmd.Run(); err != nil {
		fmt.Println(err)
		os.Exit(1)
	}
}
