#!/usr/bin/env python3
# Regenerates /verif/MANIFEST.json from the table below (kept valid at all times).
import json, subprocess, os
V = '/verif'
ids = [json.loads(l)['id'] for l in open(f'{V}/properties.jsonl')]
hook_commits = []
checks = {
 'C01': dict(cat='exploration', tech='reference-model monitor over PRNG histories: every read path compared with a map model after every step, independent directory decoder',
   text='Thousands of generated histories x configurations; after every step all read paths (Count, All, AssignAll, Get, GetByUUID, Exist, absent lookups twice) and the decoded directory are compared with a reference map. Sampled, not exhaustive: right level for a refinement property over unbounded histories.', ref='4/C01'),
 'C02': dict(cat='exploration', tech='reference-model monitor: full search matrix (paths x operators x probes) and And/Or chains vs brute-force evaluation; index invariant hook',
   text='Every generated content is queried with the full path x operator x probe matrix, chained And/Or and search-delete, against brute-force evaluation over the model; the live index is walked by an invariant hook after query batches.', ref='4/C02'),
 'C03': dict(cat='exploration', tech='reference-model monitor predicting accept/reject of every write; pairwise uniqueness over All(); unique-index invariant hook',
   text='The model predicts the uniqueness verdict of every write (iff) on conflict-biased histories with several unique fields, reopen and key reuse; pairwise uniqueness is checked on what All() returns.', ref='4/C03'),
 'C04': dict(cat='exploration', tech='differential observation sweep old handle vs new handle vs model, across close/reopen and handle abandonment',
   text='Complete observations (objects, ordered search results over 64-bit/time domains, AssignIndex) taken before Close and after Open must be identical and agree with a model that never restarted.', ref='4/C04'),
 'C07': dict(cat='exploration', tech='reference-model monitor with the all-or-nothing batch rule; state==model sweep after every batch',
   text='Generated batches with offenders at every position, intra-batch conflicts, repeated pointers, mixed updates and all chunk sizes; count and complete state are compared with the all-or-nothing rule.', ref='4/C07'),
 'C12': dict(cat='exploration', tech='differential trace monitor: the same abstract history replayed under 10 configurations, normalised observations compared step by step',
   text='One model-driven script per case is replayed under a baseline and 9 storage/indexing variants; outcome classes, membership answers, result sets, error classes of unevaluable searches and Control are compared line by line.', ref='4/C12'),
 'C13': dict(cat='exploration', tech='sequence oracles on Collect/Reverse/Limit/One/AssignIndex over generated contents with ties',
   text='Order, reverse order, prefix-by-limit, first element and AssignIndex multisets are checked on every indexed field of generated contents, with limits at all boundaries.', ref='4/C13'),
 'C15': dict(cat='exploration', tech='hook call-log monitor + reference model: order Transform -> schema transform -> Validate, invalid objects invisible',
   text='A per-object call log records what Validate saw; validity depends on transformed values, so a wrong order is observable; invalid objects are searched for on every read path.', ref='4/C15'),
 'C16': dict(cat='exploration', tech='reference-model monitor with ToUpper/ToLower canonicalisation; differently-cased probes on constrained paths',
   text='Stored values must be canonical and idempotent under re-save; differently-cased probes (incl. non-ASCII case pairs) on constrained paths at any depth, indexed or not, must match exactly the canonical equals.', ref='4/C16'),
 'C20': dict(cat='exploration', tech='snapshot oracle: outstanding search consumed after later writes must stay within the twin result taken at evaluation time; index invariant hook',
   text='A search is evaluated, writes land around its range at slice-capacity boundaries, then the outstanding search is consumed; members must come from the evaluation-time match set, also after other searches were derived from it.', ref='4/C20'),
 'C11': dict(cat='exploration', tech='offline fault injection on closed directories (files removed/added, index entries removed, schema removed) + Control/Repair oracle + file hashes + model rebuilt from decoded files',
   text='Generated fault sets are applied to healthy databases; detection must be exact (iff on uuid sets), Repair must converge without touching any object file, and reads/searches must equal a model rebuilt from the decoded files; with several collections loaded on the handle every one of repeated Control calls must give the same verdict.', ref='4/C11'),
 'C14': dict(cat='exploration', tech='alias monitor: reflection walk of reachable addresses + scrambling of every mutable location, snapshot comparison of later reads (race detector in thorough)',
   text='Objects of generated shapes are stored, then the caller copy and every returned copy are scrambled; later reads must equal the snapshot and share no address with earlier copies; cached reads must equal the decoded file, also after a Repair that re-indexed every file.', ref='4/C14'),
 'C18': dict(cat='exploration', tech='independent on-disk decoder + golden corpus written by the pinned release; model sweep on goldens',
   text='14 golden directories written by the pinned release must open with identical contents, full search matrix, constraints, and stay loadable after writes; directories written by the current code are walked by an independent decoder that encodes the pinned format.', ref='4/C18'),
 'C19': dict(cat='exploration', tech='mutation fuzzing of directories and search arguments under recover() and a CPU-time hang guard, child-per-batch isolation; model cross-check of results of unevaluable queries',
   text='Thousands of byte- and JSON-level mutants of valid directories plus stray entries, and a slice of the field x operator x probe-kind cross product, are driven through ~70 API calls each under panic/hang guards.', ref='4/C19'),
 'C05': dict(cat='fault_enumeration', tech='FS-shim crash snapshotter: every crash state (torn writes included) of each generated history materialised and judged through a fresh handle + independent decoder',
   text='Every file-system sub-step of every call of a generated history yields a crash state; all distinct crash states are reopened, classified (clean / reported / unreadable) and compared with the decoded files; Repair convergence and per-object all-or-nothing are checked. Exhaustive per history, sampled over histories.', ref='4/C05'),
 'C06': dict(cat='fault_enumeration', tech='before/after observation monitor around every rejected call; FS-shim fault injector enumerating every single EIO/ENOSPC fault of each generated history',
   text='All rejection classes are exercised with the complete observation and the file hashes compared around the call; every single storage fault of each fault history is injected and the outcome classified (no trace / reported and repaired / violation).', ref='4/C06'),
 'C10': dict(cat='exploration', tech='virtual-clock monitor (time.Sleep of the package parked on a semaphore): flusher deadlines decided in flusher iterations; independent directory decoder; second handle',
   text='The flusher only runs when the history ticks the virtual clock, so visibility with a frozen flusher, threshold- and timeout-driven flushes, Close/FlushAll completeness and never-resurrected deletes are decided without wall-clock time.', ref='4/C10'),
 'C17': dict(cat='exploration', tech='tree-hash monitor + error-class oracle over shape pairs; model sweep + child survival over live settings switches with pending writes and flusher ticks',
   text='12 shape changes x 6 stored configurations x 18 operations must be refused with ErrStructureChanged and leave every byte untouched; constraint/extension changes are refused; Create switching cache/async on a live handle with pending writes must lose nothing.', ref='4/C17'),
 'C08': dict(cat='exploration', tech='Go race detector over perturbed concurrent workloads + porcupine linearizability check of client-boundary histories against a sequential model; invariant hook at the join',
   text='Thousands of short multi-client histories (incl. first-access storms after Open and chained search refinements) run under -race with injected yields; single-lock operations are checked for linearizability with porcupine, compound ones with a weaker per-object oracle and the index invariant hook.', ref='4/C08'),
 'C09': dict(cat='exploration', tech='lock-discipline monitor on every mutex and WaitGroup operation of the package (recursive acquisition, lock-order inversion, wait-for cycle, lock leak, WaitGroup deadlock, busy loop under the lock, fate of spawned goroutines) over a reflection-driven coverage walk and contention stress incl. Close under readers',
   text='A single execution of each exported method under the monitor decides its lock discipline for every schedule (a recursive RLock is a deadlock waiting for a writer; first calls on fresh handles load schemas through writes, reads and Schema itself so that every loading path shows its lock order); contention stress adds actual wait-for-cycle detection. Undriven call paths are not seen.', ref='4/C09'),
}
notes = {}
m = {
 'version': 1,
 'setup_cmd': 'cd /verif && GOFLAGS=-mod=mod GOPROXY=off GOSUMDB=off GOTOOLCHAIN=local go build -o bin/verif ./cmd/verif',
 'hooks': {
  'guard': 'verif-overlay (no build tag in /repo: the monitors are injected at check time by rewriting a scratch copy of the working tree and compiling it with go build -overlay; see DESIGN.md 3.1)',
  'enable': 'go build [-race] -tags verifshim,verifinv -overlay <scratch>/overlay-A.json ./harness  (done by ./check on every call, against /repo\'s current working tree)',
  'baseline_off_cmd': 'cd /repo && go test -vet=off -count=1 -timeout 25m ./...',
  'source_commits': hook_commits,
  'add_only': True,
 },
 'engines': [{'name': 'verif-runner', 'path': 'cmd/verif', 'serves_properties': sorted(checks), 'kind_free_text': 'runtime monitoring: overlay-instrumented build of the working tree, child-per-batch harness with reference model, FS/lock/sleep shims, race detector, porcupine'}],
 'checks': [],
 'not_applicable': [],
 'notes': 'All checks: ./check <id> [quick|thorough]; VERIF_SEED selects the PRNG stream; known findings in known-findings.txt; replay with ./check --replay <file>.',
}
for i in ids:
    if i in checks:
        c = checks[i]
        m['checks'].append({
          'property_id': i,
          'quick_cmd': f'./check {i} quick',
          'thorough_cmd': f'./check {i} thorough',
          'evidence_file': f'/verif/evidence/{i}.json',
          'replay_cmd_template': './check --replay {path}',
          'engine': 'verif-runner',
          'level_claimed': {'category': c['cat'], 'text': c['text'], 'design_ref': 'DESIGN.md ' + c['ref']},
          'level_note': c.get('note', 'Trusted: the harness, its reference model written from the property statement, the overlay shim, the Go runtime/race detector. Verdicts hold for the executions of this run only.'),
          'technique': c['tech'],
        })
    else:
        m['not_applicable'].append({'property_id': i, 'reason': notes.get(i, 'check not built yet (work in progress; see DESIGN.md section 4)')})
json.dump(m, open(f'{V}/MANIFEST.json', 'w'), indent=1)
print('checks:', len(m['checks']), 'not_applicable:', len(m['not_applicable']))
