#!/bin/bash
# tools/crossmatrix.sh [seed-id ...]: applies each seeded patch to a scratch worktree of /repo HEAD and runs every
# registered check (quick) against it through VERIF_REPO. Writes seeded/<id>/matrix.txt and prints one line per pair.
export GOFLAGS=-mod=mod GOPROXY=off GOSUMDB=off GOTOOLCHAIN=local
V=$(cd "$(dirname "$0")/.." && pwd)
cd $V
WT=/dev/shm/verif-matrix-wt-$$
ids=$(python3 -c "import json;print(' '.join(c['property_id'] for c in json.load(open('MANIFEST.json'))['checks']))")
seeds=${@:-$(ls seeded | grep -E '^C[0-9]+-')}
rm -rf $WT; git -C /repo worktree prune; git -C /repo worktree add -q $WT HEAD || exit 2
for s in $seeds; do
  (cd $WT && git checkout -q -- . && git apply $V/seeded/$s/patch.diff) || { echo "$s: patch does not apply"; continue; }
  : > seeded/$s/matrix.txt
  for p in $ids; do
    o=$(VERIF_REPO=$WT VERIF_OUT=/dev/shm/verif-matrix-out-$$ timeout 900 ./check $p quick 2>&1); rc=$?
    sig=$(echo "$o" | grep -E "sig:" | head -1 | sed 's/^ *sig: //' | cut -c1-110)
    echo "$s $p rc=$rc $sig" | tee -a seeded/$s/matrix.txt
  done
done
git -C /repo worktree remove --force $WT; rm -rf /dev/shm/verif-matrix-out-$$
