#!/bin/bash
# tools/regress.sh [seed-id ...]: for each seeded change, applies its patch to a scratch worktree of /repo HEAD and runs
# the check of the property it breaks (quick; thorough if quick passes; then the checks named in meta.json "also_caught_by").
# Prints one line per seed: CAUGHT <by> / MISSED. Never touches /repo (VERIF_REPO overlay).
export GOFLAGS=-mod=mod GOPROXY=off GOSUMDB=off GOTOOLCHAIN=local
V=$(cd "$(dirname "$0")/.." && pwd)
cd $V
WT=/dev/shm/verif-regress-wt-$$
seeds=${@:-$(ls seeded | grep -E '^C[0-9]+-')}
rm -rf $WT; git -C /repo worktree prune; git -C /repo worktree add -q --detach $WT HEAD || exit 2
for s in $seeds; do
  (cd $WT && git checkout -q -- . && git clean -fdq && git apply $V/seeded/$s/patch.diff) || { echo "$s PATCH-DOES-NOT-APPLY"; continue; }
  p=$(python3 -c "import json;print(json.load(open('seeded/$s/meta.json'))['breaks_property'])")
  also=$(python3 -c "import json;print(' '.join(json.load(open('seeded/$s/meta.json')).get('also_caught_by',[])))")
  res="MISSED"
  if python3 -c "import json,sys;sys.exit(0 if 'neutralised_by' in json.load(open('seeded/$s/meta.json')) else 1)"; then echo "$s NEUTRALISED (a later fix of /repo made the seeded change harmless, see meta.json)"; continue; fi
  # order: the property's own check (quick), the checks named also_caught_by (quick), then the own check's thorough tier
  for try in "${p}_quick" $(for a in $also; do echo "${a}_quick"; done) "${p}_thorough"; do
    set -- $(echo $try | tr '_' ' ')
    o=$(VERIF_REPO=$WT VERIF_OUT=/dev/shm/verif-regress-out-$$ timeout 3000 ./check $1 $2 2>&1); rc=$?
    if [ $rc -eq 1 ]; then res="CAUGHT by $1 $2: $(echo "$o" | grep -E 'sig:' | head -1 | sed 's/^ *sig: //' | cut -c1-100)"; break; fi
  done
  echo "$s $res"
done
git -C /repo worktree remove --force $WT; rm -rf /dev/shm/verif-regress-out-$$
