#!/bin/bash
# tools/runall.sh [tier] [seed...]: run every registered check, one summary line each
cd "$(dirname "$0")/.."
tier=${1:-quick}; shift
seeds=${@:-1}
ids=$(python3 -c "import json;print(' '.join(c['property_id'] for c in json.load(open('MANIFEST.json'))['checks']))")
for s in $seeds; do
 for p in $ids; do
  out=$(VERIF_SEED=$s timeout 3000 ./check $p $tier 2>&1); rc=$?
  echo "seed=$s rc=$rc $(echo "$out" | grep -E '^verif: C' | tail -1)"
  echo "$out" | grep -E "VIOLATION|KNOWN-FINDING|BROKEN|sig:" | head -8
 done
done
