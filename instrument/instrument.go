// Package instrument rewrites a copy of the sod package (the *current working
// tree* of /repo) so that every file-system, sleep, lock and goroutine-spawn
// call site reports to a monitor. The result is used through `go build
// -overlay`; nothing is written to /repo. See DESIGN.md section 3.1.
package instrument

import (
	_ "embed"
	"encoding/json"
	"fmt"
	"go/ast"
	"go/parser"
	"go/token"
	"os"
	"path/filepath"
	"sort"
	"strings"
)

//go:embed shim.go.txt
var shimSrc string

//go:embed inv.go.txt
var invSrc string

// Level of instrumentation achieved.
const (
	LevelA = "A" // rewrite + shim + invariants
	LevelB = "B" // rewrite + shim
	LevelC = "C" // plain
)

var osFuncs = map[string]bool{
	"OpenFile": true, "Open": true, "Create": true, "CreateTemp": true,
	"ReadFile": true, "WriteFile": true, "ReadDir": true, "Stat": true,
	"Lstat": true, "Remove": true, "RemoveAll": true, "Rename": true,
	"Mkdir": true, "MkdirAll": true, "Truncate": true, "Chmod": true,
	"Link": true, "Symlink": true,
}

var ioutilFuncs = map[string]bool{
	"ReadFile": true, "WriteFile": true, "ReadDir": true, "TempFile": true,
}

type edit struct {
	start, end int
	text       string
}

// Stats describes what the rewriter found.
type Stats struct {
	Files     int            `json:"files"`
	Sites     map[string]int `json:"sites"` // replaced identifier -> count
	GoStmts   int            `json:"go_stmts"`
	TotalEdit int            `json:"total_edits"`
}

// RewriteFile returns the rewritten source of one file.
func RewriteFile(path string, src []byte, st *Stats) ([]byte, error) {
	fset := token.NewFileSet()
	f, err := parser.ParseFile(fset, path, src, parser.ParseComments)
	if err != nil {
		return nil, err
	}
	imp := map[string]string{} // local name -> import path
	for _, is := range f.Imports {
		p := strings.Trim(is.Path.Value, `"`)
		name := filepath.Base(p)
		if is.Name != nil {
			name = is.Name.Name
		}
		switch p {
		case "os", "io/ioutil", "time", "sync":
			imp[name] = p
		}
	}
	var edits []edit
	off := func(p token.Pos) int { return fset.Position(p).Offset }
	rep := func(n ast.Node, text string) {
		edits = append(edits, edit{off(n.Pos()), off(n.End()), text})
		st.Sites[text]++
	}
	var funcName string
	ast.Inspect(f, func(n ast.Node) bool {
		switch x := n.(type) {
		case *ast.FuncDecl:
			funcName = x.Name.Name
		case *ast.GoStmt:
			if fl, ok := x.Call.Fun.(*ast.FuncLit); ok && len(x.Call.Args) == 0 {
				p := off(fl.Body.Lbrace) + 1
				edits = append(edits, edit{p, p, fmt.Sprintf(" verifGoEnter(%q); defer verifGoExit(%q); ", funcName, funcName)})
				g := off(x.Go)
				edits = append(edits, edit{g, g, fmt.Sprintf("verifGoSpawn(%q); ", funcName)})
				st.GoStmts++
			}
		case *ast.SelectorExpr:
			id, ok := x.X.(*ast.Ident)
			if !ok || id.Obj != nil {
				return true
			}
			switch imp[id.Name] {
			case "os":
				if osFuncs[x.Sel.Name] {
					rep(x, "verifOs"+x.Sel.Name)
				} else if x.Sel.Name == "File" {
					rep(x, "verifFile")
				}
			case "io/ioutil":
				if ioutilFuncs[x.Sel.Name] {
					rep(x, "verifIoutil"+x.Sel.Name)
				}
			case "time":
				if x.Sel.Name == "Sleep" {
					rep(x, "verifSleep")
				}
			case "sync":
				if x.Sel.Name == "RWMutex" {
					rep(x, "verifRWMutex")
				} else if x.Sel.Name == "Mutex" {
					rep(x, "verifMutex")
				} else if x.Sel.Name == "WaitGroup" {
					rep(x, "verifWaitGroup")
				}
			}
		}
		return true
	})
	sort.Slice(edits, func(i, j int) bool { return edits[i].start < edits[j].start })
	var out []byte
	last := 0
	for _, e := range edits {
		if e.start < last {
			continue
		}
		out = append(out, src[last:e.start]...)
		out = append(out, e.text...)
		last = e.end
	}
	out = append(out, src[last:]...)
	// keep imports alive whose last use may have been rewritten
	var keep []string
	names := make([]string, 0, len(imp))
	for n := range imp {
		names = append(names, n)
	}
	sort.Strings(names)
	for _, n := range names {
		switch imp[n] {
		case "os":
			keep = append(keep, "var _ = "+n+".Getpid")
		case "io/ioutil":
			keep = append(keep, "var _ = "+n+".Discard")
		case "time":
			keep = append(keep, "var _ = "+n+".Now")
		case "sync":
			keep = append(keep, "var _ "+n+".Locker")
		}
	}
	if len(keep) > 0 {
		out = append(out, "\n"+strings.Join(keep, "\n")+"\n"...)
	}
	st.TotalEdit += len(edits)
	st.Files++
	return out, nil
}

// Build writes rewritten copies of every non-test .go file of repo's root
// package into outDir and returns the path of an overlay JSON file for the
// requested level.
func Build(repo, outDir, level string) (overlayPath string, st Stats, err error) {
	return BuildFrom(repo, repo, outDir, level)
}

// BuildFrom instruments the sources found in src but mounts them, through the
// overlay, at the paths of repo (the directory the go.mod replace directive
// points to). With src == repo this is the normal case; with another src
// (a scratch worktree) the same build checks that tree without touching repo.
func BuildFrom(src, repo, outDir, level string) (overlayPath string, st Stats, err error) {
	st.Sites = map[string]int{}
	if err = os.MkdirAll(outDir, 0o755); err != nil {
		return
	}
	replace := map[string]string{}
	if src != repo {
		// files of repo that do not exist in src are deleted by the overlay
		if ents, e := os.ReadDir(repo); e == nil {
			for _, e := range ents {
				n := e.Name()
				if !e.IsDir() && strings.HasSuffix(n, ".go") && !strings.HasSuffix(n, "_test.go") {
					if _, err := os.Stat(filepath.Join(src, n)); err != nil {
						replace[filepath.Join(repo, n)] = ""
					}
				}
			}
		}
		if level == LevelC {
			// plain build of another tree: mount its files unmodified
			if ents, e := os.ReadDir(src); e == nil {
				for _, e := range ents {
					n := e.Name()
					if !e.IsDir() && strings.HasSuffix(n, ".go") && !strings.HasSuffix(n, "_test.go") {
						replace[filepath.Join(repo, n)] = filepath.Join(src, n)
					}
				}
			}
		}
	}
	if level != LevelC {
		var ents []os.DirEntry
		if ents, err = os.ReadDir(src); err != nil {
			return
		}
		for _, e := range ents {
			n := e.Name()
			if e.IsDir() || !strings.HasSuffix(n, ".go") || strings.HasSuffix(n, "_test.go") {
				continue
			}
			var srcB, dst []byte
			if srcB, err = os.ReadFile(filepath.Join(src, n)); err != nil {
				return
			}
			if dst, err = RewriteFile(n, srcB, &st); err != nil {
				return
			}
			p := filepath.Join(outDir, "rw_"+n)
			if err = os.WriteFile(p, dst, 0o644); err != nil {
				return
			}
			replace[filepath.Join(repo, n)] = p
		}
		p := filepath.Join(outDir, "zz_verif_shim.go")
		if err = os.WriteFile(p, []byte(shimSrc), 0o644); err != nil {
			return
		}
		replace[filepath.Join(repo, "zz_verif_shim.go")] = p
		if level == LevelA {
			p := filepath.Join(outDir, "zz_verif_inv.go")
			if err = os.WriteFile(p, []byte(invSrc), 0o644); err != nil {
				return
			}
			replace[filepath.Join(repo, "zz_verif_inv.go")] = p
		}
	}
	overlayPath = filepath.Join(outDir, "overlay-"+level+".json")
	b, _ := json.MarshalIndent(map[string]interface{}{"Replace": replace}, "", " ")
	err = os.WriteFile(overlayPath, b, 0o644)
	return
}
