//go:build verifshim

package main

import (
	"time"

	"github.com/0xrawsec/sod"
)

const shimAvailable = true

func installHooks(h *Hooks) {
	if h == nil {
		sod.VerifSetHooks(nil)
		return
	}
	sh := &sod.VerifHooks{SplitWrites: h.SplitWrites}
	if h.FS != nil {
		sh.FS = func(ev *sod.VerifFSEvent) error {
			e := FSEvent{Seq: ev.Seq, Op: ev.Op, Phase: ev.Phase, Path: ev.Path, Path2: ev.Path2, Flags: ev.Flags, N: ev.N, Mutating: ev.Mutating, Err: ev.Err}
			err := h.FS(&e)
			if s, ok := err.(*ShortWrite); ok {
				return &sod.VerifShort{N: s.N, Err: s.Err}
			}
			return err
		}
	}
	if h.Sleep != nil {
		sh.Sleep = func(d time.Duration) { h.Sleep(d) }
	}
	if h.Lock != nil {
		sh.Lock = h.Lock
	}
	if h.Go != nil {
		sh.Go = h.Go
	}
	sod.VerifSetHooks(sh)
}
