package main

import (
	"fmt"
)

// C15 — Validate/Transform gate every insertion path (DESIGN 4/C15).

func init() {
	drivers["C15"] = &driver{cases: tierN(400, 40000), run: runC15}
}

// checkHookLog verifies, for every object handed to an insertion call in the
// last step, the order Transform -> (schema transform) -> Validate and that
// Validate saw the transformed value.
func (w *World) checkHookLog() {
	seen := map[*Rec]bool{}
	for _, pr := range w.lastPut {
		if seen[pr.X] {
			continue
		}
		seen[pr.X] = true
		evs := hookLogTake(pr.X)
		stats.Count("hook_logs_checked", 1)
		if len(evs) == 0 {
			// the call may legitimately stop before reaching this member
			// of a batch (an earlier member was rejected)
			if !pr.Batch {
				w.fail("hooks-not-called", pr.Api, "-", fmt.Sprintf("neither Transform nor Validate was called for tag %d", pr.X.Tag))
				return
			}
			continue
		}
		// every V must be preceded by a T, and must have seen the
		// transformed value
		sawT := false
		for i, e := range evs {
			switch e.Kind {
			case "T":
				sawT = true
			case "V":
				if !sawT {
					w.fail("validate-before-transform", pr.Api, "-", fmt.Sprintf("tag %d events %v", pr.X.Tag, evs))
					return
				}
				if e.Tr != pr.Want.Tr {
					w.fail("validate-before-transform", pr.Api, "-", fmt.Sprintf("Validate saw Tr=%q, transformed value is %q (event %d of %v)", e.Tr, pr.Want.Tr, i, evs))
					return
				}
				if e.Up != pr.Want.Up || e.Lo != pr.Want.Lo {
					w.fail("validate-before-schema-transform", pr.Api, "-", fmt.Sprintf("Validate saw Up=%q Lo=%q, canonical values are %q %q", e.Up, e.Lo, pr.Want.Up, pr.Want.Lo))
					return
				}
			}
		}
	}
}

// invalidInvisible: an object whose Validate failed must be visible nowhere.
func (w *World) invalidInvisible() {
	for _, pr := range w.lastPut {
		if pr.Class != "invalid" {
			continue
		}
		u := pr.X.UUID()
		if u == "" {
			continue
		}
		if _, stored := w.m.objs[u]; stored {
			continue // a rejected update: the old value stays (ReadSweep compares it)
		}
		w.checkAbsent(u)
	}
}

func runC15(k int, rng *Rng) CaseResult {
	cfg := genConfig(rng, GenOpts{CaseBias: 0.5, UniqueBias: 0.15})
	// Up / Lo carry their constraint often, so that validity depends on the schema transform
	if rng.P(0.7) {
		c := cfg.Fields["Up"]
		c.Upper, c.Lower = true, false
		cfg.Fields["Up"] = c
	}
	if rng.P(0.7) {
		c := cfg.Fields["Lo"]
		c.Lower, c.Upper = true, false
		cfg.Fields["Lo"] = c
	}
	clockNewCase(clockModeFor(cfg))
	installHooks(stdHooks())
	w := NewWorld("C15", rng, cfg, caseDir(k, "c15"))
	w.predict, w.storeWant, w.ownsTransforms = true, true, true
	defer w.Cleanup()
	if !w.OpenCreate() {
		return w.finish(nil, false, nil)
	}
	hookLogReset(true)
	defer hookLogReset(false)
	invalid := 0
	o := HistOpts{Steps: 10 + rng.Intn(16), MaxObjs: 12, Rec: RecOpts{InvalidP: 0.25, Simple: true},
		Mix: Mix{Ins: 35, Upd: 25, Noop: 3, Del: 6, Many: 15, Bulk: 8, Reopen: 3, Flush: 1}}
	o.AfterStep = func(w *World, kind string) {
		for _, pr := range w.lastPut {
			if pr.Class == "invalid" {
				invalid++
			}
		}
		w.checkHookLog()
		if w.failed() {
			return
		}
		w.invalidInvisible()
		w.ReadSweep() // stored value == transformed value, nothing else stored
	}
	w.Run(o)
	if !w.failed() {
		w.SearchSweep(30)
	}
	if !w.failed() && k%3 == 0 {
		// optional (pointer) string fields: constraints only reachable through a custom schema
		stats.Count("ptr_observations", int64(w.ptrScenario(true, false)))
	}
	var sample interface{}
	if k < sampleMax {
		sample = map[string]interface{}{"config": cfg.String(), "ops": w.absOps, "invalid_writes": invalid}
	}
	return w.finish(w.absOps, invalid >= 1 && w.accepts >= 2, sample)
}
