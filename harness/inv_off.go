//go:build !verifinv

package main

import "github.com/0xrawsec/sod"

func hasInvariants() bool                   { return false }
func invariants(db *sod.DB) []string        { return nil }
func pending(db *sod.DB, of sod.Object) int { return -1 }
