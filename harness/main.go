package main

import (
	"bufio"
	"crypto/sha256"
	"encoding/hex"
	"encoding/json"
	"flag"
	"fmt"
	"os"
	"path/filepath"
	"runtime/debug"
	"sort"
	"strings"
	"sync"
	"time"
)

// ---- child protocol (DESIGN 3.2): one JSON object per line on -out ----

type CaseResult struct {
	Type         string      `json:"type"` // "case"
	Prop         string      `json:"prop"`
	Case         int         `json:"case"`
	Verdict      string      `json:"verdict"` // ok | violation | inconclusive
	Fingerprint  string      `json:"fp"`
	Nontrivial   bool        `json:"nontrivial"`
	Inconclusive string      `json:"inconclusive,omitempty"`
	Violations   []Violation `json:"violations,omitempty"`
	Config       string      `json:"config,omitempty"`
	Steps        int         `json:"steps"`
	Sample       interface{} `json:"sample,omitempty"`
}

type Summary struct {
	Type     string              `json:"type"` // "summary"
	Counters map[string]int64    `json:"counters"`
	Sets     map[string][]string `json:"sets"`
	Shim     bool                `json:"shim"`
	Inv      bool                `json:"inv"`
}

type Stats struct {
	mu       sync.Mutex
	counters map[string]int64
	sets     map[string]map[string]bool
}

var stats = &Stats{counters: map[string]int64{}, sets: map[string]map[string]bool{}}

func (s *Stats) Count(name string, n int64) {
	s.mu.Lock()
	s.counters[name] += n
	s.mu.Unlock()
}

func (s *Stats) Max(name string, n int64) {
	s.mu.Lock()
	if n > s.counters[name] {
		s.counters[name] = n
	}
	s.mu.Unlock()
}

func (s *Stats) SetAdd(set, item string) {
	s.mu.Lock()
	m := s.sets[set]
	if m == nil {
		m = map[string]bool{}
		s.sets[set] = m
	}
	if len(m) < 20000 {
		m[item] = true
	}
	s.mu.Unlock()
}

func fingerprint(parts ...string) string {
	h := sha256.New()
	for _, p := range parts {
		h.Write([]byte(p))
		h.Write([]byte{0})
	}
	return hex.EncodeToString(h.Sum(nil))[:16]
}

var (
	outW      *bufio.Writer
	outMu     sync.Mutex
	traceF    *os.File
	traceMu   sync.Mutex
	dataRoot  string
	tier      string
	seed      int64
	verbose   bool
	sampleMax = 3
)

func emit(v interface{}) {
	b, err := json.Marshal(v)
	if err != nil {
		b, _ = json.Marshal(map[string]string{"type": "error", "error": err.Error()})
	}
	outMu.Lock()
	outW.Write(b)
	outW.WriteByte('\n')
	outW.Flush()
	outMu.Unlock()
}

// traceLine appends to the on-disk trace *before* the command is issued, so
// that the runner still has the history when the child dies.
func traceLine(s string) {
	if traceF == nil {
		return
	}
	traceMu.Lock()
	traceF.WriteString(s)
	traceF.WriteString("\n")
	traceMu.Unlock()
}

func traceReset(prop string, k int) {
	if traceF == nil {
		return
	}
	traceMu.Lock()
	traceF.Truncate(0)
	traceF.Seek(0, 0)
	fmt.Fprintf(traceF, "CASE prop=%s case=%d seed=%d tier=%s\n", prop, k, seed, tier)
	traceMu.Unlock()
}

// caseDir returns a fresh scratch root for one case.
func caseDir(k int, tag string) string {
	d := filepath.Join(dataRoot, fmt.Sprintf("c%d-%s", k, tag))
	os.RemoveAll(d)
	return d
}

type driver struct {
	// count of cases for a tier
	cases func(tier string) int
	// run one case
	run func(k int, rng *Rng) CaseResult
	// does this driver need the race build
	race bool
}

var drivers = map[string]*driver{}

func main() {
	prop := flag.String("prop", "", "property id")
	flag.StringVar(&tier, "tier", "quick", "quick|thorough")
	flag.Int64Var(&seed, "seed", 1, "VERIF_SEED")
	from := flag.Int("from", 0, "first case")
	to := flag.Int("to", -1, "last case (exclusive); -1: all")
	out := flag.String("out", "", "result file (JSONL)")
	flag.StringVar(&dataRoot, "data", "", "scratch data directory")
	count := flag.Bool("count", false, "print the number of cases and exit")
	flag.BoolVar(&verbose, "v", false, "verbose")
	gg := flag.String("gengolden", "", "write the golden corpus to this directory (pinned release only)")
	ggx := flag.String("gengoldenextra", "", "write the extra golden directories (pinned release only)")
	commit := flag.String("commit", "", "commit id recorded in golden manifests")
	flag.Parse()
	if *ggx != "" {
		if err := genGoldenExtra(*ggx, *commit); err != nil {
			fmt.Fprintln(os.Stderr, "gengoldenextra:", err)
			os.Exit(1)
		}
		return
	}
	if *gg != "" {
		if err := genGolden(*gg, *commit); err != nil {
			fmt.Fprintln(os.Stderr, "gengolden:", err)
			os.Exit(1)
		}
		return
	}

	d, ok := drivers[*prop]
	if !ok {
		var names []string
		for n := range drivers {
			names = append(names, n)
		}
		sort.Strings(names)
		fmt.Fprintf(os.Stderr, "unknown property %q; have %v\n", *prop, names)
		os.Exit(2)
	}
	if *count {
		fmt.Println(d.cases(tier))
		return
	}
	if *to < 0 {
		*to = d.cases(tier)
	}
	if dataRoot == "" {
		var err error
		if dataRoot, err = os.MkdirTemp("", "verif-data-"); err != nil {
			panic(err)
		}
		defer os.RemoveAll(dataRoot)
	}
	os.MkdirAll(dataRoot, 0o755)
	if *out == "" {
		outW = bufio.NewWriter(os.Stdout)
	} else {
		f, err := os.Create(*out)
		if err != nil {
			panic(err)
		}
		defer f.Close()
		outW = bufio.NewWriter(f)
		traceF, _ = os.Create(*out + ".trace")
	}
	start := time.Now()
	for k := *from; k < *to; k++ {
		traceReset(*prop, k)
		rng := NewRng(seed, *prop, k)
		res := runGuarded(d, k, rng)
		res.Type, res.Prop, res.Case = "case", *prop, k
		if res.Verdict == "" {
			switch {
			case len(res.Violations) > 0:
				res.Verdict = "violation"
			case res.Inconclusive != "":
				res.Verdict = "inconclusive"
			default:
				res.Verdict = "ok"
			}
		}
		emit(res)
	}
	stats.Count("child_wall_ms", time.Since(start).Milliseconds())
	finishChild()
}

// finishChild emits the summary line (also used when a child has to stop early).
func finishChild() {
	sum := Summary{Type: "summary", Counters: stats.counters, Sets: map[string][]string{}, Shim: shimAvailable, Inv: hasInvariants()}
	for n, m := range stats.sets {
		for k := range m {
			sum.Sets[n] = append(sum.Sets[n], k)
		}
		sort.Strings(sum.Sets[n])
	}
	emit(sum)
}

// finish turns a world into a case result.
func (w *World) finish(fpParts []string, nontrivial bool, sample interface{}) CaseResult {
	res := CaseResult{Violations: w.viol, Inconclusive: w.incon, Config: w.cfg.String(), Steps: w.step, Nontrivial: nontrivial}
	res.Fingerprint = fingerprint(append([]string{w.cfg.String()}, fpParts...)...)
	if clockStuck() && len(res.Violations) == 0 {
		res.Inconclusive = "virtual clock watchdog fired"
	}
	res.Sample = sample
	return res
}

// runGuarded turns a panic of the harness itself (outside the guarded API
// calls) into an inconclusive case instead of killing the child. A panic
// whose stack goes through sod is left alone: the runner reports it.
func runGuarded(d *driver, k int, rng *Rng) (res CaseResult) {
	defer func() {
		if r := recover(); r != nil {
			st := string(debug.Stack())
			if strings.Contains(st, "github.com/0xrawsec/sod.") && !strings.Contains(panicSite(st), "-") {
				panic(r)
			}
			stats.Count("harness_panics", 1)
			res = CaseResult{Verdict: "inconclusive", Inconclusive: fmt.Sprintf("HARNESS-PANIC: %v | %s", r, first(st, 600))}
		}
	}()
	return d.run(k, rng)
}
