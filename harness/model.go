package main

import (
	"bytes"
	"encoding/json"
	"fmt"
	"reflect"
	"regexp"
	"sort"
	"strings"
	"time"
)

// ---- reference model (M1), written independently of sod (DESIGN Appendix A) ----

// Key is the normalised comparison key of a field value.
type Key struct {
	Kind string // int64 uint64 float64 string
	I    int64
	U    uint64
	F    float64
	S    string
}

func (k Key) String() string {
	switch k.Kind {
	case "int64":
		return fmt.Sprintf("i%d", k.I)
	case "uint64":
		return fmt.Sprintf("u%d", k.U)
	case "float64":
		if k.F == 0 {
			return "f0" // -0 and +0 are the same key
		}
		return fmt.Sprintf("f%v", k.F)
	}
	return fmt.Sprintf("s%q", k.S)
}

func cmpKey(a, b Key) int {
	switch a.Kind {
	case "int64":
		switch {
		case a.I < b.I:
			return -1
		case a.I > b.I:
			return 1
		}
	case "uint64":
		switch {
		case a.U < b.U:
			return -1
		case a.U > b.U:
			return 1
		}
	case "float64":
		switch {
		case a.F < b.F:
			return -1
		case a.F > b.F:
			return 1
		}
	case "string":
		return strings.Compare(a.S, b.S)
	}
	return 0
}

// keyOf normalises a Go value; ok=false for unsupported kinds.
func keyOf(v interface{}) (Key, bool) {
	switch x := v.(type) {
	case int:
		return Key{Kind: "int64", I: int64(x)}, true
	case int8:
		return Key{Kind: "int64", I: int64(x)}, true
	case int16:
		return Key{Kind: "int64", I: int64(x)}, true
	case int32:
		return Key{Kind: "int64", I: int64(x)}, true
	case int64:
		return Key{Kind: "int64", I: x}, true
	case uint:
		return Key{Kind: "uint64", U: uint64(x)}, true
	case uint8:
		return Key{Kind: "uint64", U: uint64(x)}, true
	case uint16:
		return Key{Kind: "uint64", U: uint64(x)}, true
	case uint32:
		return Key{Kind: "uint64", U: uint64(x)}, true
	case uint64:
		return Key{Kind: "uint64", U: x}, true
	case float32:
		return Key{Kind: "float64", F: float64(x)}, true
	case float64:
		return Key{Kind: "float64", F: x}, true
	case string:
		return Key{Kind: "string", S: x}, true
	case time.Time:
		return Key{Kind: "int64", I: x.UTC().UnixNano()}, true
	}
	return Key{}, false
}

// leaf resolves a dotted path on a value; a nil pointer on the path yields the
// zero value of the leaf (DESIGN 3.8). ok=false: unknown path.
func leaf(root interface{}, path string) (interface{}, bool) {
	v := reflect.ValueOf(root)
	for v.Kind() == reflect.Ptr {
		if v.IsNil() {
			v = reflect.Zero(v.Type().Elem())
		} else {
			v = v.Elem()
		}
	}
	for _, name := range strings.Split(path, ".") {
		if v.Kind() != reflect.Struct {
			return nil, false
		}
		if _, isTime := v.Interface().(time.Time); isTime {
			return nil, false
		}
		f := v.FieldByName(name)
		if !f.IsValid() {
			return nil, false
		}
		v = f
		for v.Kind() == reflect.Ptr {
			if v.IsNil() {
				v = reflect.Zero(v.Type().Elem())
			} else {
				v = v.Elem()
			}
		}
	}
	return v.Interface(), true
}

// setLeafString sets a string leaf when reachable (no nil pointer on the path).
func setLeafString(root interface{}, path string, f func(string) string) {
	v := reflect.ValueOf(root)
	for v.Kind() == reflect.Ptr {
		if v.IsNil() {
			return
		}
		v = v.Elem()
	}
	for _, name := range strings.Split(path, ".") {
		if v.Kind() != reflect.Struct {
			return
		}
		v = v.FieldByName(name)
		if !v.IsValid() {
			return
		}
		for v.Kind() == reflect.Ptr {
			if v.IsNil() {
				return
			}
			v = v.Elem()
		}
	}
	if v.Kind() == reflect.String && v.CanSet() {
		v.SetString(f(v.String()))
	}
}

func recKey(x interface{}, path string) (Key, bool) {
	v, ok := leaf(x, path)
	if !ok {
		return Key{}, false
	}
	return keyOf(v)
}

// cloneRec deep-copies through JSON (exported fields only) and keeps the uuid.
func cloneRec(x *Rec) *Rec {
	b, err := json.Marshal(x)
	if err != nil {
		panic("harness: cloneRec: " + err.Error())
	}
	y := &Rec{}
	if err := json.Unmarshal(b, y); err != nil {
		panic("harness: cloneRec: " + err.Error())
	}
	y.Initialize(x.UUID())
	return y
}

// canonJSON is the canonical observation of an object: JSON of exported fields.
func canonJSON(x interface{}) string {
	b, err := json.Marshal(x)
	if err != nil {
		return "!marshal:" + err.Error()
	}
	// a struct held in an interface{} comes back from a file as a map:
	// normalise the key order (numbers keep their literal form)
	if bytes.Contains(b, []byte(`"Any":{`)) || bytes.Contains(b, []byte(`"Any":[`)) {
		dec := json.NewDecoder(bytes.NewReader(b))
		dec.UseNumber()
		var v interface{}
		if dec.Decode(&v) == nil {
			if c, err := json.Marshal(v); err == nil {
				return string(c)
			}
		}
	}
	return string(b)
}

// applyTransforms returns what the statement says must be stored: the
// object's own Transform, then the schema's case transforms.
func (c Config) applyTransforms(x *Rec) *Rec {
	y := cloneRec(x)
	recHook(y)
	for p, k := range c.Fields {
		if k.Upper {
			setLeafString(y, p, strings.ToUpper)
		}
		if k.Lower {
			setLeafString(y, p, strings.ToLower)
		}
	}
	return y
}

type Model struct {
	cfg     Config
	objs    map[string]*Rec // uuid -> stored value (deep copy)
	order   []string        // uuids in creation order (slots)
	deleted []string        // uuids deleted (for absent probes)
	tags    int
}

func NewModel(cfg Config) *Model { return &Model{cfg: cfg, objs: map[string]*Rec{}} }

func (m *Model) Len() int { return len(m.objs) }

// Clone returns an independent copy.
func (m *Model) Clone() *Model {
	c := &Model{cfg: m.cfg, objs: map[string]*Rec{}, order: append([]string(nil), m.order...), deleted: append([]string(nil), m.deleted...), tags: m.tags}
	for u, x := range m.objs {
		c.objs[u] = cloneRec(x)
	}
	return c
}

// live uuids in creation order
func (m *Model) Live() []string {
	out := make([]string, 0, len(m.objs))
	for _, u := range m.order {
		if _, ok := m.objs[u]; ok {
			out = append(out, u)
		}
	}
	return out
}

func (m *Model) Put(x *Rec) {
	u := x.UUID()
	if _, ok := m.objs[u]; !ok {
		known := false
		for _, o := range m.order {
			if o == u {
				known = true
			}
		}
		if !known {
			m.order = append(m.order, u)
		}
		// re-insertion of a deleted uuid: no longer absent
		for i, d := range m.deleted {
			if d == u {
				m.deleted = append(m.deleted[:i], m.deleted[i+1:]...)
				break
			}
		}
	}
	m.objs[u] = cloneRec(x)
}

func (m *Model) Delete(u string) {
	if _, ok := m.objs[u]; ok {
		delete(m.objs, u)
		m.deleted = append(m.deleted, u)
	}
}

func (m *Model) Clear() {
	for _, u := range m.Live() {
		m.Delete(u)
	}
}

func (m *Model) Snapshot() map[string]string {
	out := map[string]string{}
	for u, x := range m.objs {
		out[u] = canonJSON(x)
	}
	return out
}

// uniqueConflict: does a stored object other than uuid hold the same canonical
// value in a unique field? Returns the path.
func (m *Model) uniqueConflict(y *Rec, uuid string) (string, bool) {
	for _, p := range m.cfg.uniquePathsSorted() {
		k, ok := recKey(y, p)
		if !ok {
			continue
		}
		for u, o := range m.objs {
			if u == uuid {
				continue
			}
			if ko, ok := recKey(o, p); ok && cmpKey(k, ko) == 0 {
				return p, true
			}
		}
	}
	return "", false
}

// ---- predicate evaluation ----

var opsAll = []string{"=", "!=", "<", "<=", ">", ">=", "~="}

// evalOp: does field key fk satisfy (op probe)? err for invalid regexp.
func evalOp(fk Key, op string, pk Key, rex *regexp.Regexp) bool {
	// the float ordering is IEEE 754's: NaN is unordered, only != holds
	if fk.Kind == "float64" && pk.Kind == "float64" && (fk.F != fk.F || pk.F != pk.F) {
		return op == "!="
	}
	switch op {
	case "=":
		return cmpKey(fk, pk) == 0
	case "!=":
		return cmpKey(fk, pk) != 0
	case "<":
		return cmpKey(fk, pk) < 0
	case "<=":
		return cmpKey(fk, pk) <= 0
	case ">":
		return cmpKey(fk, pk) > 0
	case ">=":
		return cmpKey(fk, pk) >= 0
	case "~=":
		return rex != nil && fk.Kind == "string" && rex.MatchString(fk.S)
	}
	return false
}

// Query is one comparison.
type Query struct {
	Path  string
	Op    string
	Probe interface{}
}

func (q Query) String() string {
	if t, ok := q.Probe.(time.Time); ok {
		return fmt.Sprintf("%s %s time(%d)", q.Path, q.Op, t.UTC().UnixNano())
	}
	return fmt.Sprintf("%s %s %T(%#v)", q.Path, q.Op, q.Probe, q.Probe)
}

// Eval returns the set of uuids matching q in the model. ok=false when the
// query cannot be evaluated (unknown path, ill-typed probe, bad pattern).
func (m *Model) Eval(q Query) (set map[string]bool, ok bool) {
	return evalOver(m.cfg, m.objs, q)
}

func evalOver(cfg Config, objs map[string]*Rec, q Query) (set map[string]bool, ok bool) {
	pk, ok := keyOf(q.Probe)
	if !ok {
		return nil, false
	}
	if pk.Kind == "string" {
		pk.S = cfg.canon(q.Path, pk.S)
	}
	var rex *regexp.Regexp
	if q.Op == "~=" {
		if pk.Kind != "string" {
			return nil, false
		}
		var err error
		if rex, err = regexp.Compile(pk.S); err != nil {
			return nil, false
		}
	}
	valid := false
	for _, o := range opsAll {
		if o == q.Op {
			valid = true
		}
	}
	if !valid {
		return nil, false
	}
	set = map[string]bool{}
	for u, x := range objs {
		fk, ok := recKey(x, q.Path)
		if !ok {
			return nil, false
		}
		if fk.Kind != pk.Kind {
			return nil, false
		}
		if evalOp(fk, q.Op, pk, rex) {
			set[u] = true
		}
	}
	return set, true
}

func setKeys(s map[string]bool) []string {
	out := make([]string, 0, len(s))
	for k := range s {
		out = append(out, k)
	}
	sort.Strings(out)
	return out
}

func sameSet(a map[string]bool, b []string) bool {
	if len(a) != len(b) {
		return false
	}
	for _, u := range b {
		if !a[u] {
			return false
		}
	}
	return true
}
