package main

import (
	"fmt"
	"os"
	"path/filepath"
)

// C01 — reads reflect exactly the accepted writes (DESIGN 4/C01).

func tierN(quick, thorough int) func(string) int {
	return func(t string) int {
		if t == "thorough" {
			return thorough
		}
		return quick
	}
}

func clockModeFor(cfg Config) int {
	if cfg.Async != 0 {
		return clockVirtual
	}
	return clockReal
}

func stdHooks() *Hooks {
	h := &Hooks{Sleep: clockSleep, Go: clockGo}
	if os.Getenv("VERIF_DEBUG_FS") != "" {
		// debugging aid: print every mutating FS event with its sod call site
		h.FS = func(ev *FSEvent) error {
			if ev.Mutating && ev.Phase == "pre" {
				fmt.Fprintf(os.Stderr, "FS g%d %s %s @%s\n", gid(), ev.Op, filepath.Base(ev.Path), sodSite(5))
			}
			return nil
		}
	}
	return h
}

func init() {
	drivers["C01"] = &driver{cases: tierN(320, 30000), run: runC01}
}

func runC01(k int, rng *Rng) CaseResult {
	cfg := genConfig(rng, GenOpts{})
	clockNewCase(clockModeFor(cfg))
	installHooks(stdHooks())
	w := NewWorld("C01", rng, cfg, caseDir(k, "c01"))
	defer w.Cleanup()
	if !w.OpenCreate() {
		return w.finish(nil, false, nil)
	}
	steps := 8 + rng.Intn(18)
	if tier == "thorough" {
		steps = 10 + rng.Intn(30)
	}
	maxLive := 0
	o := HistOpts{Steps: steps, MaxObjs: 14, Mix: mixDefault, Rec: RecOpts{InvalidP: 0.1}, BiasUnique: true}
	o.AfterStep = func(w *World, kind string) {
		if n := w.m.Len(); n > maxLive {
			maxLive = n
		}
		w.ReadSweep()
		if w.cfg.Async == 0 && (kind == "del" || kind == "delall" || kind == "sdel" || w.rng.P(0.25)) {
			w.DirSweep()
		}
	}
	w.Run(o)
	if !w.failed() {
		// end of history: close, look at the directory, reopen, read again
		w.Reopen(false)
		w.DirSweep()
		w.ReadSweep()
	}
	nontrivial := w.accepts >= 2 && maxLive >= 2 && w.step >= 5
	var sample interface{}
	if k < sampleMax {
		sample = map[string]interface{}{"config": cfg.String(), "ops": w.absOps, "accepted": w.accepts, "rejected": w.rejects, "max_live": maxLive}
	}
	return w.finish(w.absOps, nontrivial, sample)
}
