package main

import (
	"bytes"
	"compress/gzip"
	"crypto/sha256"
	"encoding/hex"
	"encoding/json"
	"fmt"
	"os"
	"path/filepath"
	"sort"
	"strings"

	"github.com/0xrawsec/sod"
)

// C11 — Control detects every divergence; Repair restores agreement (DESIGN 4/C11).

func init() {
	drivers["C11"] = &driver{cases: tierN(300, 30000), run: runC11}
}

// hashFiles returns name -> sha256 of every non-schema file of a directory.
func hashFiles(dir string) map[string]string {
	out := map[string]string{}
	ents, _ := os.ReadDir(dir)
	for _, e := range ents {
		if e.Name() == "schema.json" {
			continue
		}
		b, err := os.ReadFile(filepath.Join(dir, e.Name()))
		if err != nil {
			out[e.Name()] = "unreadable"
			continue
		}
		h := sha256.Sum256(b)
		out[e.Name()] = hex.EncodeToString(h[:])
	}
	return out
}

func writeObjectFile(dir string, cfg Config, x *Rec) error {
	b, err := json.Marshal(x)
	if err != nil {
		return err
	}
	name := x.UUID() + cfg.Ext
	if cfg.Compress {
		name += ".gz"
		var buf bytes.Buffer
		zw, _ := gzip.NewWriterLevel(&buf, gzip.BestSpeed)
		zw.Write(b)
		zw.Close()
		b = buf.Bytes()
	}
	return os.WriteFile(filepath.Join(dir, name), b, 0o700)
}

func writeGz(buf *bytes.Buffer, b []byte) {
	zw, _ := gzip.NewWriterLevel(buf, gzip.BestSpeed)
	zw.Write(b)
	zw.Close()
}

// editSchema decodes schema.json preserving numbers, applies f, writes it back.
func editSchema(dir string, f func(s map[string]interface{}) error) error {
	p := filepath.Join(dir, "schema.json")
	raw, err := os.ReadFile(p)
	if err != nil {
		return err
	}
	dec := json.NewDecoder(bytes.NewReader(raw))
	dec.UseNumber()
	var s map[string]interface{}
	if err := dec.Decode(&s); err != nil {
		return err
	}
	if err := f(s); err != nil {
		return err
	}
	out, err := json.Marshal(s)
	if err != nil {
		return err
	}
	return os.WriteFile(p, out, 0o700)
}

// dropIndexEntry removes uuid from object-ids and from the listed field
// indexes (all when fields == nil).
func dropIndexEntry(s map[string]interface{}, uuid string, onlyField string) error {
	idx, ok := s["index"].(map[string]interface{})
	if !ok {
		return fmt.Errorf("no index")
	}
	ids, ok := idx["object-ids"].(map[string]interface{})
	if !ok {
		return fmt.Errorf("no object-ids")
	}
	id := ""
	for k, v := range ids {
		if v == uuid {
			id = k
		}
	}
	if id == "" {
		return fmt.Errorf("uuid not indexed")
	}
	if onlyField == "" {
		delete(ids, id)
	}
	fields, _ := idx["fields"].(map[string]interface{})
	for fn, fv := range fields {
		if onlyField != "" && fn != onlyField {
			continue
		}
		fm, ok := fv.(map[string]interface{})
		if !ok {
			continue
		}
		tuples, _ := fm["index"].([]interface{})
		var keep []interface{}
		for _, t := range tuples {
			tt, ok := t.([]interface{})
			if ok && len(tt) == 2 {
				if n, ok := tt[1].(json.Number); ok && n.String() == id {
					continue
				}
			}
			keep = append(keep, t)
		}
		if keep == nil {
			keep = []interface{}{}
		}
		fm["index"] = keep
	}
	return nil
}

func runC11(k int, rng *Rng) CaseResult {
	cfg := genConfig(rng, GenOpts{ForceSync: rng.P(0.8), UniqueBias: 0.15})
	// the omitempty field is indexed often (every re-indexed object must
	// carry its own field values)
	if rng.P(0.6) {
		c := cfg.Fields["O"]
		c.Index = true
		cfg.Fields["O"] = c
	}
	clockNewCase(clockModeFor(cfg))
	installHooks(stdHooks())
	w := NewWorld("C11", rng, cfg, caseDir(k, "c11"))
	w.storeWant = false
	defer w.Cleanup()
	if !w.OpenCreate() {
		return w.finish(nil, false, nil)
	}
	shape := k % 10
	// other collections on the same handle (healthy ones): Control speaks for the whole handle, its
	// verdict on this collection does not depend on how many others are loaded, nor on their order
	multi := rng.P(0.4)
	if multi && !w.otherCollections(true) {
		return w.finish(nil, false, nil)
	}
	o := HistOpts{Steps: 3 + rng.Intn(14), MaxObjs: 12, Rec: RecOpts{ValidOnly: true, Simple: true},
		Mix: Mix{Ins: 55, Upd: 25, Del: 8, Many: 6}}
	if shape == 0 {
		o.Steps = 0 // empty collection
	}
	w.Run(o)
	if w.failed() {
		return w.finish(w.absOps, false, nil)
	}
	// healthy database: no false positive, before and after Close. Writes that are still pending
	// are no divergence: their objects are stored as far as every read is concerned, and a Repair
	// has nothing to drop
	var err error
	w.call("Control", func() { err = w.db.Control() })
	if err != nil {
		w.fail("control-false-positive", "Control", map[bool]string{true: "pending-writes", false: "-"}[cfg.Async != 0], err.Error())
		return w.finish(w.absOps, false, nil)
	}
	if cfg.Async != 0 && rng.P(0.5) {
		w.call("Repair", func() { err = w.db.Repair(&Rec{}) })
		if err != nil {
			w.fail("repair-error", "Repair", "healthy-pending-writes", err.Error())
			return w.finish(w.absOps, false, nil)
		}
		w.abs("repair-healthy")
		w.ReadSweep()
		if !w.failed() {
			w.SearchSweep(15)
		}
		if w.failed() {
			return w.finish(w.absOps, false, nil)
		}
	}
	w.call("Close", func() { err = w.db.Close() })
	if err != nil {
		w.fail("close-failed", "Close", "-", err.Error())
		return w.finish(w.absOps, false, nil)
	}
	clockSettle()
	dir := w.collDir()
	// ---- fault set ----
	live := w.m.Live()
	files := map[string]bool{}
	indexed := map[string]bool{}
	for _, u := range live {
		files[u], indexed[u] = true, true
	}
	objs := map[string]*Rec{} // expected contents after Repair = decoded files
	for u, x := range w.m.objs {
		objs[u] = x
	}
	nRm, nAdd, nDrop := 0, 0, 0
	rmSchema, inconsistent := false, false
	switch shape {
	case 0: // empty collection: only additions possible
		nAdd = rng.Intn(3)
	case 1: // all files gone
		nRm = len(live)
	case 2: // only extra files
		nAdd = 1 + rng.Intn(3)
	case 3: // schema gone
		rmSchema = true
		nRm = rng.Intn(2)
	case 4: // no fault at all
	case 5: // internal inconsistency
		inconsistent = len(live) > 0 && len(cfg.Fields) > 0
	default:
		nRm, nAdd, nDrop = rng.Intn(3), rng.Intn(3), rng.Intn(3)
		rmSchema = rng.P(0.1)
	}
	var faults []string
	perm := append([]string(nil), live...)
	for i := len(perm) - 1; i > 0; i-- {
		j := rng.Intn(i + 1)
		perm[i], perm[j] = perm[j], perm[i]
	}
	take := func(n int) []string {
		if n > len(perm) {
			n = len(perm)
		}
		t := perm[:n]
		perm = perm[n:]
		return t
	}
	suffix := cfg.Ext
	if cfg.Compress {
		suffix += ".gz"
	}
	var removed []*Rec
	for _, u := range take(nRm) {
		if rng.P(0.3) {
			// the file is still there under a name that is not an object file's
			os.Rename(filepath.Join(dir, u+suffix), filepath.Join(dir, u+".bak"))
			faults = append(faults, "renamed-away:"+w.name(u))
		} else {
			os.Remove(filepath.Join(dir, u+suffix))
			faults = append(faults, "rmfile:"+w.name(u))
		}
		removed = append(removed, objs[u])
		delete(files, u)
		delete(objs, u)
	}
	// entries that are not object files of the collection: they change nothing
	if shape >= 6 && rng.P(0.4) {
		os.WriteFile(filepath.Join(dir, w.absentUUID()+".txt"), []byte("{}"), 0o600)
		os.Mkdir(filepath.Join(dir, strings.ToLower(w.absentUUID())+suffix), 0o700)
		faults = append(faults, "not-object-files")
	}
	for i := 0; i < nAdd; i++ {
		x := cfg.applyTransforms(genRec(rng, 1000+i, RecOpts{ValidOnly: true, Simple: true}))
		// keep unique fields free of conflicts: Repair indexes files as they are
		x.K, x.KS, x.U8, x.I64, x.F64, x.X = 100+i, fmt.Sprintf("added%d", i), uint8(200+i), int64(7000+i), float64(7000+i), 7000+i
		x.T = x.T.AddDate(0, 0, 100+i)
		if i < len(removed) && removed[i] != nil && rng.P(0.5) {
			// the file of a removed object under another identifier: its unique values are free
			// as far as the files are concerned
			r := removed[i]
			x.K, x.KS, x.U8, x.I64, x.F64, x.X, x.T = r.K, r.KS, r.U8, r.I64, r.F64, r.X, r.T
			faults = append(faults, "addfile-takes-removed-values")
		}
		x = cfg.applyTransforms(x)
		u := w.absentUUID()
		x.Initialize(u)
		w.seen[u] = true
		if err := writeObjectFile(dir, cfg, x); err != nil {
			w.incon = "harness: " + err.Error()
			return w.finish(w.absOps, false, nil)
		}
		w.m.order = append(w.m.order, u)
		files[u] = true
		objs[u] = x
		faults = append(faults, "addfile")
	}
	if !rmSchema {
		for _, u := range take(nDrop) {
			if e := editSchema(dir, func(s map[string]interface{}) error { return dropIndexEntry(s, u, "") }); e != nil {
				w.incon = "harness: " + e.Error()
				return w.finish(w.absOps, false, nil)
			}
			delete(indexed, u)
			faults = append(faults, "dropentry:"+w.name(u))
		}
		if inconsistent {
			var fns []string
			for p := range cfg.Fields {
				if cfg.indexed(p) {
					fns = append(fns, p)
				}
			}
			sort.Strings(fns)
			if len(fns) == 0 {
				inconsistent = false
			} else {
				fn := pick(rng, fns)
				u := pick(rng, live)
				if e := editSchema(dir, func(s map[string]interface{}) error { return dropIndexEntry(s, u, fn) }); e != nil {
					w.incon = "harness: " + e.Error()
					return w.finish(w.absOps, false, nil)
				}
				faults = append(faults, "inconsistent:"+fn)
			}
		}
	} else {
		os.Remove(filepath.Join(dir, "schema.json"))
		indexed = map[string]bool{}
		faults = append(faults, "rmschema")
	}
	w.logf("faults: %v", faults)
	w.abs(fmt.Sprint(faults))
	diverged := len(files) != len(indexed)
	for u := range files {
		if !indexed[u] {
			diverged = true
		}
	}
	before := hashFiles(dir)
	// ---- detection on first load ----
	w.Open()
	api := "Schema(first load)"
	if rmSchema {
		api = "Create(schema removed)"
		w.call("Create", func() { err = w.db.Create(&Rec{}, schemaFor(cfg, &Rec{})) })
	} else {
		w.call("Schema", func() { _, err = w.db.Schema(&Rec{}) })
	}
	w.logf("%s -> %v", api, err)
	faultClass := "none"
	switch {
	case inconsistent:
		faultClass = "inconsistent"
	case rmSchema:
		faultClass = "rmschema"
	case diverged:
		faultClass = "diverged"
	}
	switch {
	case inconsistent:
		if err == nil {
			w.fail("inconsistency-undetected", api, faultClass, fmt.Sprint(faults))
		}
		// detection only; convergence of Repair is not demanded here (the
		// statement's Repair clause speaks about files and entries)
		return w.finish(w.absOps, true, c11Sample(k, cfg, faults, w))
	case diverged && !sod.IsIndexCorrupted(err):
		w.fail("divergence-undetected", api, faultClass, fmt.Sprintf("faults %v: err=%v", faults, err))
	case !diverged && err != nil:
		w.fail("control-false-positive", api, faultClass, fmt.Sprintf("faults %v: err=%v", faults, err))
	}
	if w.failed() {
		return w.finish(w.absOps, true, nil)
	}
	nControl := 1
	if multi {
		if !w.otherCollections(false) {
			return w.finish(w.absOps, true, nil)
		}
		w.abs("multi")
		nControl = 6
	}
	if !rmSchema || !diverged {
		for i := 0; i < nControl; i++ {
			w.call("Control", func() { err = w.db.Control() })
			if diverged != sod.IsIndexCorrupted(err) || (!diverged && err != nil) {
				w.fail("control-verdict", "Control", faultClass+map[bool]string{true: "+other-collections", false: ""}[multi], fmt.Sprintf("faults %v diverged=%v, call %d: err=%v", faults, diverged, i+1, err))
				return w.finish(w.absOps, true, nil)
			}
		}
	}
	// ---- Repair ----
	// a caller that looked at the files' objects first (fills the cache with objects the index does
	// not know yet): the answers are not judged here, Repair's outcome is
	warmed := 0
	if rng.P(0.5) {
		var us []string
		for u := range files {
			us = append(us, u)
		}
		sort.Strings(us)
		for _, u := range us {
			if rng.P(0.7) {
				w.call("GetByUUID", func() { w.db.GetByUUID(&Rec{}, u) })
				warmed++
			}
		}
		w.logf("read %d object(s) by uuid before Repair", warmed)
		w.abs(fmt.Sprintf("warm%d", warmed))
	}
	w.call("Repair", func() { err = w.db.Repair(&Rec{}) })
	if err != nil {
		w.fail("repair-error", "Repair", faultClass, fmt.Sprintf("faults %v: %v", faults, err))
		return w.finish(w.absOps, true, nil)
	}
	after := hashFiles(dir)
	for n, h := range before {
		if after[n] != h {
			w.fail("repair-touched-file", "Repair", faultClass, fmt.Sprintf("object file %s modified or deleted by Repair", n))
			return w.finish(w.absOps, true, nil)
		}
	}
	for n := range after {
		if _, ok := before[n]; !ok {
			w.fail("repair-touched-file", "Repair", faultClass, "file created by Repair: "+n)
			return w.finish(w.absOps, true, nil)
		}
	}
	for i := 0; i < nControl; i++ {
		w.call("Control", func() { err = w.db.Control() })
		if err != nil {
			w.fail("control-after-repair", "Control", faultClass, err.Error())
			return w.finish(w.absOps, true, nil)
		}
	}
	// a divergence in another collection of the handle is reported as well, whatever the others'
	// state, and its Repair leaves this collection alone
	if multi && rng.P(0.5) {
		od := filepath.Join(w.root, w.dirName("main.Other"))
		ents, _ := os.ReadDir(od)
		rm := ""
		for _, e := range ents {
			if strings.HasSuffix(e.Name(), ".json") && e.Name() != "schema.json" {
				rm = e.Name()
				break
			}
		}
		if rm == "" {
			w.incon = "harness: no object file in the other collection"
			return w.finish(w.absOps, true, nil)
		}
		os.Remove(filepath.Join(od, rm))
		w.logf("object file %s of the other collection removed behind the running handle", rm)
		for i := 0; i < nControl; i++ {
			w.call("Control", func() { err = w.db.Control() })
			if !sod.IsIndexCorrupted(err) {
				w.fail("divergence-undetected", "Control(other collection)", "rmfile+other-collections", fmt.Sprintf("call %d: err=%v", i+1, err))
				return w.finish(w.absOps, true, nil)
			}
		}
		w.call("Repair", func() { err = w.db.Repair(&Other{}) })
		if err != nil {
			w.fail("repair-error", "Repair(other collection)", "rmfile", err.Error())
			return w.finish(w.absOps, true, nil)
		}
		for i := 0; i < nControl; i++ {
			w.call("Control", func() { err = w.db.Control() })
			if err != nil {
				w.fail("control-after-repair", "Control(other collection)", "rmfile", err.Error())
				return w.finish(w.absOps, true, nil)
			}
		}
		w.abs("other-diverged")
	}
	// searches and reads must reflect file contents
	w.m.objs = objs
	w.ReadSweep()
	w.SearchSweep(60)
	w.Invariants("index")
	// the repaired state is not a property of this handle only: in synchronous mode a handle opened
	// right now, without any Close (the repairing process may die), finds the collection healthy
	if !w.failed() && cfg.Async == 0 && rng.P(0.5) {
		w.Abandon()
		w.call("Schema", func() { _, err = w.db.Schema(&Rec{}) })
		if err != nil {
			w.fail("repair-lost-without-close", "Schema(new handle, no Close)", faultClass, err.Error())
		}
		w.abs("abandon-after-repair")
		if !w.failed() {
			w.ReadSweep()
			w.SearchSweep(20)
		}
	}
	// and the repaired state survives a commit + reopen
	if !w.failed() {
		w.Reopen(false)
		w.call("Schema", func() { _, err = w.db.Schema(&Rec{}) })
		if err != nil {
			w.fail("control-after-repair", "Schema(after reopen)", faultClass, err.Error())
		}
		w.ReadSweep()
		w.SearchSweep(20)
	}
	// the same on a running handle: an object this handle has served (cached, when caching is on)
	// loses its file; after Control has reported it and Repair has run, no read knows it any more
	if live := w.m.Live(); !w.failed() && len(live) > 0 && cfg.Async == 0 && rng.P(0.5) {
		u := pick(rng, live)
		w.call("GetByUUID", func() { w.db.GetByUUID(&Rec{}, u) })
		os.Remove(filepath.Join(w.collDir(), u+suffix))
		w.logf("file of %s removed behind the running handle", w.name(u))
		w.call("Control", func() { err = w.db.Control() })
		if !sod.IsIndexCorrupted(err) {
			w.fail("divergence-undetected", "Control(running handle)", "rmfile", fmt.Sprintf("err=%v", err))
		}
		w.call("Repair", func() { err = w.db.Repair(&Rec{}) })
		if err != nil && !w.failed() {
			w.fail("repair-error", "Repair", "running-handle", err.Error())
		}
		if !w.failed() {
			w.m.Delete(u)
			w.abs("rmfile-live")
			w.ReadSweep()
			w.SearchSweep(15)
		}
	}
	return w.finish(w.absOps, len(faults) > 0, c11Sample(k, cfg, faults, w))
}

func c11Sample(k int, cfg Config, faults []string, w *World) interface{} {
	if k >= 2*sampleMax {
		return nil
	}
	return map[string]interface{}{"config": cfg.String(), "content_ops": w.absOps, "faults": faults}
}

// otherCollections creates (create=true) or loads two more collections on the handle, each holding
// two objects.
func (w *World) otherCollections(create bool) bool {
	osch := sod.DefaultSchema
	osch.Cache = w.cfg.Cache
	var err error
	for _, o := range []sod.Object{&Other{}, &Tagged{}} {
		o := o
		if !create {
			w.call("Schema(other collection)", func() { _, err = w.db.Schema(o) })
			if err != nil {
				w.fail("control-false-positive", "Schema(other collection)", "-", err.Error())
				return false
			}
			continue
		}
		w.call("Create(other collection)", func() {
			if err = w.db.Create(o, osch); err != nil {
				return
			}
			for i := 0; i < 2 && err == nil; i++ {
				switch o.(type) {
				case *Other:
					err = w.db.InsertOrUpdate(&Other{A: i, B: fmt.Sprintf("b%d", i)})
				case *Tagged:
					err = w.db.InsertOrUpdate(&Tagged{Name: fmt.Sprintf("n%d", i), Code: "c", Num: int64(i)})
				}
			}
		})
		if err != nil {
			w.fail("create-failed", "Create(other collection)", "-", err.Error())
			return false
		}
	}
	return true
}

func (w *World) dirName(typ string) string {
	if w.cfg.LowerName {
		return goldenLowerName(typ)
	}
	return typ
}
