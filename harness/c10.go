package main

import (
	"fmt"
	"os"
	"path/filepath"
	"sort"
	"time"

	"github.com/0xrawsec/sod"
)

// C10 — async writes: visible at once, flushed by threshold/timeout, complete
// at Close (DESIGN 4/C10, M5). All deadlines are in virtual time: the unit is
// one iteration of the flusher (one Sleep call of the package).

func init() {
	drivers["C10"] = &driver{cases: tierN(240, 20000), run: runC10}
}

// diskStatus compares the decoded directory with the model.
type diskStatus struct {
	dirty       int    // live objects whose file is missing or differs
	ghost       string // a file exists for a uuid that is not stored
	schemaOK    bool   // schema.json lists exactly the stored uuids
	unreadable  string
	schemaExist bool
}

func (w *World) diskStatus() diskStatus {
	d := readDisk(w.collDir(), w.cfg.Ext, w.cfg.Compress)
	var st diskStatus
	for u, e := range d.ObjErr {
		st.unreadable = short(u) + ": " + e
	}
	for u, want := range w.m.objs {
		raw, ok := d.Objects[u]
		if !ok {
			st.dirty++
			continue
		}
		if x, err := decodeRec(u, raw); err != nil || canonJSON(x) != canonJSON(want) {
			st.dirty++
		}
	}
	for u := range d.Objects {
		if _, ok := w.m.objs[u]; !ok {
			st.ghost = u
		}
	}
	st.schemaExist = d.HasSchema
	if idx, err := d.indexedUUIDs(); err == nil && len(idx) == len(w.m.objs) {
		st.schemaOK = true
		for u := range w.m.objs {
			if _, ok := idx[u]; !ok {
				st.schemaOK = false
			}
		}
	}
	return st
}

func runC10(k int, rng *Rng) CaseResult {
	cfg := genConfig(rng, GenOpts{ForceAsync: true, UniqueBias: 0.15})
	cfg.Async = 2
	cfg.Threshold = pick(rng, []int{1, 3, 50})
	cfg.Timeout = pick(rng, []time.Duration{100 * time.Millisecond, 300 * time.Millisecond, time.Second, time.Hour})
	realtime := tier == "thorough" && k%10 == 9
	if realtime {
		clockNewCase(clockScaled)
	} else {
		clockNewCase(clockVirtual)
	}
	installHooks(stdHooks())
	w := NewWorld("C10", rng, cfg, caseDir(k, "c10"))
	w.storeWant = false
	defer w.Cleanup()
	if !w.OpenCreate() {
		return w.finish(nil, false, nil)
	}
	// a second collection on the same handle, asynchronous too
	osch := sod.DefaultSchema
	osch.Asynchrone(cfg.Threshold, cfg.Timeout)
	var err error
	w.call("Create(Other)", func() { err = w.db.Create(&Other{}, osch) })
	if err != nil {
		w.fail("create-failed", "Create(Other)", "-", err.Error())
		return w.finish(nil, false, nil)
	}
	// and a third one created with the very same Schema value (one settings variable used for
	// several collections, as applications do)
	w.call("Create(Tagged)", func() { err = w.db.Create(&Tagged{}, osch) })
	if err != nil {
		w.fail("create-failed", "Create(Tagged)", "-", err.Error())
		return w.finish(nil, false, nil)
	}
	others := map[string]string{}
	clockSettle()
	if realtime {
		return runC10Realtime(k, w, others)
	}

	deletedEver := map[string]bool{}
	dirtyTicks := 0    // consecutive flusher iterations during which the directory stayed behind
	overThreshold := 0 // consecutive flusher iterations with pending >= threshold
	maxPending, flushesSeen, ticks := 0, 0, 0
	sleepUnit := time.Duration(0)
	wasDirty := false
	check := func(after string) {
		if w.failed() {
			return
		}
		// (1) immediately visible to every read, flusher frozen
		w.ReadSweep()
		if w.failed() {
			return
		}
		st := w.diskStatus()
		if st.unreadable != "" {
			w.fail("async-unreadable-file", after, "-", st.unreadable)
			return
		}
		// (4) deleted while pending never appears on disk afterwards
		if st.ghost != "" && deletedEver[st.ghost] {
			w.fail("deleted-object-on-disk", after, "-", fmt.Sprintf("file of %s exists although it was deleted", short(st.ghost)))
			return
		}
		if p := pending(w.db, &Rec{}); p > maxPending {
			maxPending = p
		}
		dirty := st.dirty > 0
		if wasDirty && !dirty {
			flushesSeen++
		}
		// the two counters measure *continuous* lateness: a directory seen up to date between two
		// iterations (FlushAll, a Create that flushes, a threshold flush) starts a new period
		if st.dirty == 0 && st.ghost == "" && st.schemaOK {
			dirtyTicks = 0
		}
		if st.dirty < cfg.Threshold {
			overThreshold = 0
		}
		wasDirty = dirty
		stats.Max("max_pending_observed", int64(maxPending))
	}
	onTick := func() {
		if clockLive() == 0 {
			// nothing to drive with the virtual clock
			if shimAvailable && clockSpawnsAny() == 0 && w.accepts > 0 {
				// decided logically, not by a timer: writes were accepted but the
				// package never started any background goroutine, so nothing
				// can bring them to disk "without further calls"
				w.fail("no-background-flusher", "flusher", "-", "asynchronous writes were accepted but the package spawned no goroutine")
			} else if sp, ex := clockFlusherCensus(); w.accepts > 0 && sp > 0 && sp == ex {
				// also decided logically: every flusher that was started has
				// returned although the handle is open and asynchronous writes are on
				w.fail("flusher-exited", "flusher", "-", fmt.Sprintf("all %d background flushers of the open handle have returned; pending writes can no longer reach the disk without further calls", sp))
			} else if w.accepts > 0 {
				w.incon = fmt.Sprintf("flusher does not sleep through time.Sleep: virtual deadlines cannot be decided (spawns=%d live=%d gen=%d parked=%d sleeps=%d)", clockSpawnsAny(), clockLive(), clock.gen, len(clock.parked), clock.sleeps)
			}
			return
		}
		d := clockTick()
		ticks++
		if d > 0 {
			sleepUnit = d
		}
		st := w.diskStatus()
		clean := st.dirty == 0 && st.ghost == "" && st.schemaOK
		if st.dirty >= cfg.Threshold {
			overThreshold++
		} else {
			overThreshold = 0
		}
		if clean {
			dirtyTicks = 0
		} else {
			dirtyTicks++
		}
		// (2) threshold: two iterations of slack
		if overThreshold > 2 {
			w.fail("threshold-flush-missing", "flusher", "-", fmt.Sprintf("%d objects pending >= threshold %d for %d flusher iterations, still not on disk", st.dirty, cfg.Threshold, overThreshold))
			return
		}
		// (2) timeout, in the code's own sleep unit, two iterations of slack
		if sleepUnit > 0 {
			limit := int(cfg.Timeout/sleepUnit) + 2
			if dirtyTicks > limit {
				w.fail("timeout-flush-missing", "flusher", "-", fmt.Sprintf("directory behind the accepted writes for %d flusher iterations of %s (timeout %s): dirty=%d ghost=%v schema=%v", dirtyTicks, sleepUnit, cfg.Timeout, st.dirty, st.ghost != "", st.schemaOK))
			}
		}
	}
	steps := 10 + rng.Intn(25)
	for i := 0; i < steps && !w.failed(); i++ {
		w.step++
		live := w.m.Live()
		switch x := rng.Intn(100); {
		case x < 30 || len(live) == 0:
			r := genRec(rng, w.m.tags, RecOpts{ValidOnly: true, Simple: true})
			w.m.tags++
			out := w.Insert(r)
			w.abs("ins>" + out.Class)
			check("InsertOrUpdate")
		case x < 45:
			u := pick(rng, live) // pending or flushed
			r := w.callerCopy(u)
			mutateRec(rng, r, RecOpts{ValidOnly: true, Simple: true})
			out := w.Put(r, "update")
			w.abs("upd>" + out.Class)
			check("InsertOrUpdate")
		case x < 56:
			u := pick(rng, live)
			w.Delete(u)
			deletedEver[u] = true
			w.abs("del")
			check("Delete")
		case x < 60:
			// idempotent Create on the live handle, half of the time with the
			// very Schema value of the first Create
			same := rng.Bool()
			w.logf("Create(again) same-schema-value=%v", same)
			var e error
			if same {
				e = w.CreateSameValue()
			} else {
				e = w.Create()
			}
			if e != nil {
				w.fail("create-failed", "Create(again)", "-", e.Error())
			}
			clockSettle()
			w.abs("create")
			check("Create")
		case x < 66:
			var o sod.Object = &Other{A: rng.Intn(3), B: fmt.Sprintf("b%d", i), C: 1.5}
			coll := "main.Other"
			if rng.Bool() {
				o, coll = &Tagged{Name: fmt.Sprintf("n%d", i), Code: "C", Num: int64(i)}, "main.Tagged"
			}
			w.call("InsertOrUpdate(other collection)", func() { err = w.db.InsertOrUpdate(o) })
			if err == nil {
				others[o.UUID()] = coll
			}
			w.abs("other")
		case x < 70:
			w.logf("FlushAll")
			w.call("FlushAll", func() { err = w.db.FlushAll(&Rec{}) })
			w.abs("flushall")
			if st := w.diskStatus(); err != nil || st.dirty > 0 {
				w.fail("flushall-incomplete", "FlushAll", "-", fmt.Sprintf("err=%v, %d accepted objects not on disk after FlushAll returned", err, st.dirty))
			}
			check("FlushAll")
		case x < 74:
			w.logf("FlushAllAndCommit")
			w.call("FlushAllAndCommit", func() { err = w.db.FlushAllAndCommit(&Rec{}) })
			w.abs("flushcommit")
			if st := w.diskStatus(); err != nil || st.dirty > 0 || !st.schemaOK {
				w.fail("flushcommit-incomplete", "FlushAllAndCommit", "-", fmt.Sprintf("err=%v dirty=%d schema committed=%v", err, st.dirty, st.schemaOK))
			}
			check("FlushAllAndCommit")
		default:
			n := 1 + rng.Intn(3)
			if rng.P(0.1) && cfg.Timeout <= time.Second {
				n = int(cfg.Timeout/(100*time.Millisecond)) + 3 // let the timeout elapse
			}
			w.logf("tick x%d", n)
			for j := 0; j < n && !w.failed(); j++ {
				onTick()
			}
			w.abs(fmt.Sprintf("tick%d", n))
			check("tick")
		}
	}
	// bounded progress: stop calling, let virtual time pass up to the timeout
	if !w.failed() && cfg.Timeout <= time.Second {
		for j := 0; j < int(cfg.Timeout/(100*time.Millisecond))+4 && !w.failed(); j++ {
			onTick()
		}
		if st := w.diskStatus(); !w.failed() && (st.dirty > 0 || !st.schemaOK) {
			w.fail("timeout-flush-missing", "flusher", "-", fmt.Sprintf("after timeout+4 iterations without calls: dirty=%d schema=%v", st.dirty, st.schemaOK))
		}
		if !w.failed() {
			w.othersOnDisk(others, "timeout-flush-missing", "flusher")
		}
		check("idle")
	}
	// (3) Close: everything of every collection is on disk and committed
	if !w.failed() {
		w.logf("Close")
		w.call("Close", func() { err = w.db.Close() })
		st := w.diskStatus()
		if err != nil || st.dirty > 0 || st.ghost != "" || !st.schemaOK {
			w.fail("close-incomplete", "Close", "-", fmt.Sprintf("err=%v dirty=%d ghost=%v schema=%v", err, st.dirty, st.ghost != "", st.schemaOK))
		}
		w.closeOthers(others)
		// ticks after Close must not resurrect or write anything
		for j := 0; j < 3; j++ {
			clockTick()
		}
		if st := w.diskStatus(); !w.failed() && (st.dirty > 0 || st.ghost != "") {
			w.fail("close-incomplete", "Close(+ticks)", "-", "directory changed after Close")
		}
		// a second handle agrees
		if !w.failed() {
			w.Open()
			w.call("Schema", func() { _, err = w.db.Schema(&Rec{}) })
			if err != nil {
				w.fail("close-incomplete", "Schema(new handle)", "-", err.Error())
			}
			clockSettle()
			w.ReadSweep()
		}
		// (2) again, on a handle whose very first call is the write (the collection is loaded by
		// that call, there was no Create and no read before), followed by silence
		if !w.failed() && cfg.Timeout <= time.Second {
			w.Reopen(false)
			w.step++
			if !w.failed() {
				w.logf("first call on a new handle:")
				var out writeOutcome
				if live := w.m.Live(); len(live) > 0 && rng.P(0.6) {
					r := w.callerCopy(pick(rng, live))
					mutateRec(rng, r, RecOpts{ValidOnly: true, Simple: true})
					out = w.Put(r, "update")
				} else {
					r := genRec(rng, w.m.tags, RecOpts{ValidOnly: true, Simple: true})
					w.m.tags++
					out = w.Insert(r)
				}
				w.abs("lazy-put>" + out.Class)
				clockSettle()
				if out.Class == "nil" && !w.failed() {
					// one verdict for this scenario, decided on the directory after timeout + 4
					// iterations of whatever flusher exists (none: nothing to drive)
					n := int(cfg.Timeout/(100*time.Millisecond)) + 4
					for j := 0; j < n && clockLive() > 0; j++ {
						clockTick()
					}
					sp, ex := clockFlusherCensus()
					if st := w.diskStatus(); st.dirty > 0 || !st.schemaOK {
						if shimAvailable {
							w.fail("first-call-write-not-flushed", "flusher", "-", fmt.Sprintf("a write accepted by the first call on a new handle (collection loaded by that call) is not on disk after timeout+4 iterations without calls: dirty=%d schema=%v; flushers of this handle: %d running (%d started, %d returned)", st.dirty, st.schemaOK, clockLive(), sp, ex))
						} else {
							w.incon = "no shim: virtual deadlines cannot be decided"
						}
					}
					dirtyTicks, overThreshold = 0, 0
					check("idle")
				}
			}
		}
	}
	var sample interface{}
	if k < sampleMax {
		sample = map[string]interface{}{"config": cfg.String(), "ops": w.absOps, "flusher_iterations": ticks, "max_pending": maxPending, "flushes_observed": flushesSeen, "sleep_unit": sleepUnit.String()}
	}
	stats.Count("flushes_observed", int64(flushesSeen))
	return w.finish(w.absOps, w.accepts >= 2 && ticks >= 1, sample)
}

func (w *World) closeOthers(others map[string]string) {
	w.othersOnDisk(others, "close-incomplete", "Close")
}

// othersOnDisk: every accepted object of the other collections of the handle has its file.
func (w *World) othersOnDisk(others map[string]string, clause, api string) {
	us := make([]string, 0, len(others))
	for u := range others {
		us = append(us, u)
	}
	sort.Strings(us)
	for _, u := range us {
		dir := filepath.Join(w.root, others[u])
		if w.cfg.LowerName {
			dir = filepath.Join(w.root, goldenLowerName(others[u]))
		}
		if _, err := os.Stat(filepath.Join(dir, u+".json")); err != nil {
			w.fail(clause, api, "other-collection", fmt.Sprintf("object %s of collection %s (created on the same handle, asynchronous, same timeout) is not on disk", short(u), others[u]))
			return
		}
	}
}

// runC10Realtime: the same oracle with a scaled real-time flusher (runs under
// the race detector in the thorough tier). Wall-clock can only make the case
// inconclusive, never a violation.
func runC10Realtime(k int, w *World, others map[string]string) CaseResult {
	rng := w.rng
	for i := 0; i < 12 && !w.failed(); i++ {
		w.step++
		live := w.m.Live()
		switch x := rng.Intn(10); {
		case x < 5 || len(live) == 0:
			r := genRec(rng, w.m.tags, RecOpts{ValidOnly: true, Simple: true})
			w.m.tags++
			w.Insert(r)
		case x < 8:
			r := w.callerCopy(pick(rng, live))
			mutateRec(rng, r, RecOpts{ValidOnly: true, Simple: true})
			w.Put(r, "update")
		default:
			w.Delete(pick(rng, live))
		}
		w.ReadSweep()
		time.Sleep(time.Duration(rng.Intn(3)) * time.Millisecond)
	}
	if w.cfg.Timeout <= time.Second && !w.failed() {
		deadline := time.Now().Add(w.cfg.Timeout/time.Duration(clock.scale)*100 + 2*time.Second)
		for time.Now().Before(deadline) {
			if st := w.diskStatus(); st.dirty == 0 && st.schemaOK {
				break
			}
			time.Sleep(2 * time.Millisecond)
		}
		if st := w.diskStatus(); st.dirty > 0 || !st.schemaOK {
			w.incon = "real-time flusher did not flush within 100x the scaled timeout"
		}
	}
	var err error
	w.call("Close", func() { err = w.db.Close() })
	if st := w.diskStatus(); !w.failed() && (err != nil || st.dirty > 0 || st.ghost != "" || !st.schemaOK) {
		w.fail("close-incomplete", "Close", "-", fmt.Sprintf("err=%v dirty=%d schema=%v", err, st.dirty, st.schemaOK))
	}
	return w.finish(append(w.absOps, "realtime"), w.accepts >= 2, nil)
}
