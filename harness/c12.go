package main

import (
	"fmt"
	"os"
	"sort"
	"strings"
	"time"
)

// C12 — behaviour independent of storage configuration and indexing (DESIGN 4/C12).

func init() {
	drivers["C12"] = &driver{cases: tierN(150, 4000), run: runC12}
}

// badArgQueries: arguments that cannot be evaluated; only the error class is
// observed (and it must not depend on configuration, indexing or collection size).
func badArgQueries(r *Rng, paths []string) []Query {
	var out []Query
	for _, p := range paths {
		f := recFieldByPath[p]
		if f == nil {
			continue
		}
		if f.Kind == "string" {
			out = append(out, Query{p, "~=", "(["}, Query{p, "~=", "*a"})
		}
		out = append(out, Query{p, "<>", zeroProbe(f)}, Query{p, "", zeroProbe(f)}, Query{p, "==", zeroProbe(f)})
		// well-formed probe of the wrong kind
		switch f.Kind {
		case "int64":
			out = append(out, Query{p, "=", "str"}, Query{p, ">", uint8(1)}, Query{p, "<", 1.5})
		case "uint64":
			out = append(out, Query{p, "=", -1}, Query{p, "!=", "x"})
		case "float64":
			out = append(out, Query{p, "=", 1}, Query{p, "<=", "x"})
		case "string":
			out = append(out, Query{p, "=", 1}, Query{p, ">=", 1.5})
		}
	}
	out = append(out, Query{"NoSuchField", "=", 1}, Query{"N.Nope", "=", 1}, Query{"", "=", 1})
	return out
}

func zeroProbe(f *fieldInfo) interface{} {
	switch f.Kind {
	case "int64":
		if f.IsTime {
			return time.Unix(0, 0).UTC()
		}
		return int(0)
	case "uint64":
		return uint(0)
	case "float64":
		return float64(0)
	}
	return ""
}

type c12Run struct {
	cfg     Config
	trace   []string // one normalised observation per step
	viol    []Violation
	incon   string
	absOps  []string
	accepts int
}

// c12Script replays the abstract history determined by (seed) under cfg and
// returns the normalised trace.
func c12Script(k int, tag string, seedRng *Rng, cfg Config, steps int, paths []string) c12Run {
	rng := &Rng{s: seedRng.s} // same stream for every configuration
	clockNewCase(clockModeFor(cfg))
	installHooks(stdHooks())
	w := NewWorld("C12", rng, cfg, caseDir(k, "c12-"+tag))
	defer w.Cleanup()
	run := c12Run{cfg: cfg}
	if !w.OpenCreate() {
		run.viol = w.viol
		return run
	}
	bad := badArgQueries(rng, paths)
	// containers included: nil / empty / non-empty slices and maps must read
	// back the same whatever the storage configuration
	o := HistOpts{MaxObjs: 10, BiasUnique: true, Rec: RecOpts{InvalidP: 0.1},
		Mix: Mix{Ins: 35, Upd: 25, Noop: 3, Del: 10, DelAbs: 2, Reins: 2, Many: 6, Bulk: 2, SDel: 3, DelAll: 1, Reopen: 4, Create: 1, Flush: 3, Tick: 4}}
	observe := func(label string, kind string) {
		// queries drawn from the model, which is configuration independent
		qs := w.evaluableOrBad(w.sampleQueriesOn(paths, 8))
		for i := 0; i < 4; i++ {
			qs = append(qs, bad[rng.Intn(len(bad))])
		}
		per := w.m.Live()
		if len(per) > 3 {
			per = per[len(per)-3:] // the most recently written objects
		}
		if len(w.m.deleted) > 0 {
			per = append(per, w.m.deleted[len(w.m.deleted)-1])
		}
		obs := w.Observe(ObsOpts{Queries: qs, PerUUID: per})
		// refinements with arguments that cannot be evaluated, of results that are empty or not:
		// whether the call fails, and how, must not depend on the field being indexed
		for i := 0; i < 3; i++ {
			base := Query{"Tag", "=", -12345} // matches nothing
			if rng.Bool() && len(qs) > 0 {
				base = qs[rng.Intn(len(qs))]
			}
			b := bad[rng.Intn(len(bad))]
			conn := pick(rng, []string{"and", "and", "or"})
			var ln int
			var err error
			w.call("Search."+conn, func() {
				s := w.db.Search(&Rec{}, base.Path, base.Op, base.Probe)
				if conn == "and" {
					s = s.And(b.Path, b.Op, b.Probe)
				} else {
					s = s.Or(b.Path, b.Op, b.Probe)
				}
				err, ln = s.Err(), s.Len()
			})
			key := fmt.Sprintf("chain:%s %s %s", base.String(), conn, b.String())
			if err != nil {
				obs[key] = "err:" + errClass(err)
			} else {
				obs[key] = fmt.Sprintf("len=%d", ln)
			}
		}
		// integrity check once no write is pending: right after a flush
		// or a close/reopen, which leave nothing pending in any configuration
		// (a single-object flush leaves the other pending writes pending)
		if (kind == "flush" && !strings.HasPrefix(w.absOps[len(w.absOps)-1], "flush1:")) || kind == "reopen" {
			var err error
			w.call("Control", func() { err = w.db.Control() })
			obs["control"] = errClass(err)
		}
		keys := make([]string, 0, len(obs))
		for k := range obs {
			keys = append(keys, k)
		}
		sort.Strings(keys)
		var b strings.Builder
		b.WriteString(label)
		for _, k := range keys {
			fmt.Fprintf(&b, "\n  %s => %s", k, strings.ReplaceAll(obs[k], "\n", " ; "))
		}
		run.trace = append(run.trace, b.String())
	}
	observe("init", "") // bad arguments on the empty collection
	for i := 0; i < steps && !w.failed(); i++ {
		kind := w.Step(o)
		observe(fmt.Sprintf("step %d %s %s", i, kind, w.absOps[len(w.absOps)-1]), kind)
	}
	run.viol, run.incon, run.absOps, run.accepts = w.viol, w.incon, w.absOps, w.accepts
	return run
}

func (w *World) sampleQueriesOn(paths []string, n int) []Query {
	qs := w.queriesFor(paths)
	if len(qs) == 0 {
		return nil
	}
	out := make([]Query, 0, n)
	for i := 0; i < n; i++ {
		out = append(out, qs[w.rng.Intn(len(qs))])
	}
	return out
}

func (w *World) evaluableOrBad(qs []Query) []Query { return qs }

func runC12(k int, rng *Rng) CaseResult {
	// the fields' constraints (unique, upper, lower) are behaviour and stay
	// the same in every run; storage flags and plain indexes vary
	base := genConfig(rng, GenOpts{ForceSync: true, NoLowerName: true, UniqueBias: 0.25})
	base.Cache, base.Compress, base.Ext, base.LowerName = false, false, ".json", false
	paths := []string{}
	for _, f := range recFields {
		if f.Desc && rng.P(0.35) {
			paths = append(paths, f.Path)
		}
	}
	if len(paths) == 0 {
		paths = []string{"I", "S"}
	}
	indexedAll := cloneCfg(base)
	unindexedAll := cloneCfg(base)
	for _, p := range paths {
		c := indexedAll.Fields[p]
		c.Index = true
		indexedAll.Fields[p] = c
		c = unindexedAll.Fields[p]
		if !c.Unique {
			c.Index = false
		}
		if c == (Cons{}) {
			delete(unindexedAll.Fields, p)
		} else {
			unindexedAll.Fields[p] = c
		}
	}
	variant := func(f func(c *Config)) Config {
		c := cloneCfg(indexedAll)
		f(&c)
		return c
	}
	th := pick(rng, []int{1, 3, 50})
	to := pick(rng, []time.Duration{100 * time.Millisecond, 300 * time.Millisecond, time.Hour})
	variants := []struct {
		name string
		cfg  Config
	}{
		{"unindexed", unindexedAll},
		{"cache", variant(func(c *Config) { c.Cache = true })},
		{"gzip", variant(func(c *Config) { c.Compress = true })},
		{"async-frozen", variant(func(c *Config) { c.Async, c.Threshold, c.Timeout = 1, th, to })},
		{"async-ticking", variant(func(c *Config) { c.Async, c.Threshold, c.Timeout = 2, th, to })},
		{"lowercase-names", variant(func(c *Config) { c.LowerName = true })},
		{"extension", variant(func(c *Config) { c.Ext = ".v1.dat" })},
		{"all-on", variant(func(c *Config) {
			c.Cache, c.Compress, c.LowerName, c.Ext = true, true, true, ".obj"
			c.Async, c.Threshold, c.Timeout = 2, th, to
		})},
		{"unindexed+cache+async", func() Config {
			c := cloneCfg(unindexedAll)
			c.Cache, c.Async, c.Threshold, c.Timeout = true, 1, th, to
			return c
		}()},
	}
	steps := 8 + rng.Intn(14)
	seedRng := rng.Fork()
	baseRun := c12Script(k, "base", seedRng, indexedAll, steps, paths)
	res := CaseResult{Config: indexedAll.String(), Steps: steps}
	res.Violations = append(res.Violations, onlyPanics(baseRun.viol)...)
	compared := 0
	for _, v := range variants {
		if len(res.Violations) > 0 {
			break
		}
		vr := c12Script(k, v.name, seedRng, v.cfg, steps, paths)
		res.Violations = append(res.Violations, onlyPanics(vr.viol)...)
		n := len(baseRun.trace)
		if len(vr.trace) < n {
			n = len(vr.trace)
		}
		for i := 0; i < n; i++ {
			if baseRun.trace[i] != vr.trace[i] {
				key, d := firstLineDiff(baseRun.trace[i], vr.trace[i])
				res.Violations = append(res.Violations, Violation{
					Sig:    fmt.Sprintf("C12|config-divergence|%s|%s|%s", v.name, obsKeyClass(key), "-"),
					Clause: "config-divergence", Api: v.name, Step: i,
					Detail: fmt.Sprintf("same abstract history, step %d:\n baseline (%s)\n variant  (%s)\n%s", i, indexedAll.String(), v.cfg.String(), d),
					Trace:  tailLines(baseRun.trace[i], 12),
				})
				break
			}
			compared++
		}
		if len(baseRun.trace) != len(vr.trace) && len(res.Violations) == 0 && len(vr.viol) == 0 && len(baseRun.viol) == 0 {
			res.Violations = append(res.Violations, Violation{Sig: "C12|config-divergence|" + v.name + "|length|-", Clause: "config-divergence", Detail: "traces have different lengths"})
		}
	}
	stats.Count("trace_steps_compared", int64(compared))
	res.Nontrivial = compared > 0 && baseRun.accepts >= 2
	res.Fingerprint = fingerprint(append([]string{indexedAll.String()}, baseRun.absOps...)...)
	if k < sampleMax {
		res.Sample = map[string]interface{}{"baseline": indexedAll.String(), "searched_paths": paths, "ops": baseRun.absOps, "variants": len(variants), "trace_steps_compared": compared, "first_step_trace": first(strings.Join(baseRun.trace[:1], ""), 600)}
	}
	_ = os.Stdout
	return res
}

func onlyPanics(vs []Violation) []Violation {
	var out []Violation
	for _, v := range vs {
		out = append(out, v)
	}
	return out
}

func cloneCfg(c Config) Config {
	d := c
	d.Fields = map[string]Cons{}
	for k, v := range c.Fields {
		d.Fields[k] = v
	}
	return d
}

func firstLineDiff(a, b string) (key, desc string) {
	al, bl := strings.Split(a, "\n"), strings.Split(b, "\n")
	for i := 0; i < len(al) && i < len(bl); i++ {
		if al[i] != bl[i] {
			key = strings.TrimSpace(al[i])
			if j := strings.Index(key, " => "); j > 0 {
				key = key[:j]
			}
			return key, fmt.Sprintf("  baseline: %s\n  variant:  %s", first(strings.TrimSpace(al[i]), 400), first(strings.TrimSpace(bl[i]), 400))
		}
	}
	return "length", fmt.Sprintf("  %d vs %d observation lines", len(al), len(bl))
}

// obsKeyClass reduces an observation key to a closed vocabulary for signatures.
func obsKeyClass(key string) string {
	switch {
	case strings.HasPrefix(key, "q:"):
		// q:<path> <op> <probe>
		parts := strings.SplitN(strings.TrimPrefix(key, "q:"), " ", 3)
		if len(parts) >= 2 {
			return "search(" + parts[1] + ")"
		}
		return "search"
	case strings.HasPrefix(key, "chain:"):
		if strings.Contains(key, " or ") {
			return "chain-or(bad-arguments)"
		}
		return "chain-and(bad-arguments)"
	case strings.HasPrefix(key, "get:"):
		return "get"
	case strings.HasPrefix(key, "exist:"):
		return "exist"
	case strings.HasPrefix(key, "step"), strings.HasPrefix(key, "init"):
		return "outcome"
	}
	return key
}

func tailLines(s string, n int) []string {
	l := strings.Split(s, "\n")
	if len(l) > n {
		l = l[:n]
	}
	return l
}
