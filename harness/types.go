package main

import (
	"errors"
	"fmt"
	"strings"
	"sync"
	"time"

	"github.com/0xrawsec/sod"
)

// ---- workload types (DESIGN.md 3.4) ----

type Inner struct {
	D int
	E string
	F float64
}

type Nested struct {
	A  int64
	S  string
	In Inner
	P  *Inner
}

type Emb struct {
	X int
	Y string
}

type Sub struct {
	V int
	L []int
}

// Rec carries every indexable kind, nested / embedded paths and containers.
// Constraints are not fixed by tags: each case draws a FieldDescMap.
type Rec struct {
	sod.Item
	Tag int // harness identity (creation slot); keys the hook call log
	I   int
	I8  int8
	I16 int16
	I32 int32
	I64 int64
	U   uint
	U8  uint8
	U16 uint16
	U32 uint32
	U64 uint64
	F32 float32
	F64 float64
	S   string
	T   time.Time
	Up  string
	Lo  string
	K   int
	KS  string
	O   int `json:",omitempty"`
	N   *Nested
	Emb
	Tags []string
	Subs []*Sub
	M    map[string][]*Sub
	PP   **int
	AP   [2]*int
	AS   [2][]int
	Any  interface{}
	Tr   string // Transform trims it
	Chk  int    // Validate: bit0 Tr must be trimmed, bit1 Up must be upper case, bit2 Lo must be lower case; Transform: bit3 derives Up, bit4 derives Lo
	Bad  int    // Validate fails when != 0
}

type hookEvent struct {
	Kind       string // T or V
	Tr, Up, Lo string
}

var hookLog = struct {
	sync.Mutex
	on bool
	m  map[*Rec][]hookEvent
}{m: map[*Rec][]hookEvent{}}

func hookLogReset(on bool) {
	hookLog.Lock()
	hookLog.on = on
	hookLog.m = map[*Rec][]hookEvent{}
	hookLog.Unlock()
}

func hookLogTake(x *Rec) []hookEvent {
	hookLog.Lock()
	defer hookLog.Unlock()
	e := hookLog.m[x]
	delete(hookLog.m, x)
	return e
}

func (r *Rec) logHook(kind string) {
	hookLog.Lock()
	if hookLog.on {
		hookLog.m[r] = append(hookLog.m[r], hookEvent{kind, r.Tr, r.Up, r.Lo})
	}
	hookLog.Unlock()
}

func (r *Rec) Transform() {
	r.logHook("T")
	recHook(r)
}

// recHook is what Rec's Transform hook does (the model applies the same function): it trims Tr
// and, on request (Chk bits 3 and 4), derives a mixed-case prefix into Up / Lo, fields that may
// carry a case constraint: the schema's transform comes after the hook and has the last word.
// Idempotent: the prefix is recognised in any case.
func recHook(r *Rec) {
	r.Tr = strings.TrimSpace(r.Tr)
	if r.Chk&8 != 0 && !strings.HasPrefix(strings.ToLower(r.Up), "hk:") {
		r.Up = "Hk:" + r.Up
	}
	if r.Chk&16 != 0 && !strings.HasPrefix(strings.ToLower(r.Lo), "hk:") {
		r.Lo = "Hk:" + r.Lo
	}
}

var errRecInvalid = errors.New("rec: invalid by harness rule")

// validRule is the validity predicate on an already transformed value.
func validRule(r *Rec) error {
	if r.Bad != 0 {
		return fmt.Errorf("%w: Bad=%d", errRecInvalid, r.Bad)
	}
	if r.Chk&1 != 0 && strings.TrimSpace(r.Tr) != r.Tr {
		return fmt.Errorf("%w: Tr not trimmed", errRecInvalid)
	}
	if r.Chk&2 != 0 && strings.ToUpper(r.Up) != r.Up {
		return fmt.Errorf("%w: Up not upper", errRecInvalid)
	}
	if r.Chk&4 != 0 && strings.ToLower(r.Lo) != r.Lo {
		return fmt.Errorf("%w: Lo not lower", errRecInvalid)
	}
	return nil
}

func (r *Rec) Validate() error {
	r.logHook("V")
	return validRule(r)
}

// Other is a second collection sharing the database root.
type Other struct {
	sod.Item
	A int    `sod:"index"`
	B string `sod:"unique"`
	C float64
}

// Tagged gets its constraints from struct tags (the tag parser is part of
// C16's mechanism).
type Tagged struct {
	sod.Item
	Name  string    `sod:"unique,lower"`
	Code  string    `sod:"index,upper"`
	Plain string    `sod:"upper"`
	Num   int64     `sod:"index"`
	When  time.Time `sod:"index"`
	In    struct {
		Deep string `sod:"lower"`
		P    *struct {
			Deeper string `sod:"index,upper"`
		}
	}
}

// URLRec has an acronym at the start of its name: the lower-case directory
// name of such a type is a corner of the naming rule (C18).
type URLRec struct {
	sod.Item
	Host string `sod:"unique,lower"`
	Hits int    `sod:"index"`
}

// fieldInfo describes one searchable leaf path of Rec.
type fieldInfo struct {
	Path      string
	Kind      string // int64 uint64 float64 string (key kind); time is int64 with IsTime
	GoType    string
	IsTime    bool
	Desc      bool // has a field descriptor (indexable)
	ThroughPt bool // path goes through a pointer
}

var recFields = []fieldInfo{
	{"I", "int64", "int", false, true, false},
	{"I8", "int64", "int8", false, true, false},
	{"I16", "int64", "int16", false, true, false},
	{"I32", "int64", "int32", false, true, false},
	{"I64", "int64", "int64", false, true, false},
	{"U", "uint64", "uint", false, true, false},
	{"U8", "uint64", "uint8", false, true, false},
	{"U16", "uint64", "uint16", false, true, false},
	{"U32", "uint64", "uint32", false, true, false},
	{"U64", "uint64", "uint64", false, true, false},
	{"F32", "float64", "float32", false, true, false},
	{"F64", "float64", "float64", false, true, false},
	{"S", "string", "string", false, true, false},
	{"T", "int64", "time.Time", true, true, false},
	{"Up", "string", "string", false, true, false},
	{"Lo", "string", "string", false, true, false},
	{"K", "int64", "int", false, true, false},
	{"KS", "string", "string", false, true, false},
	{"O", "int64", "int", false, true, false},
	{"N.A", "int64", "int64", false, true, true},
	{"N.S", "string", "string", false, true, true},
	{"N.In.D", "int64", "int", false, true, true},
	{"N.In.E", "string", "string", false, true, true},
	{"N.In.F", "float64", "float64", false, true, true},
	{"N.P.D", "int64", "int", false, true, true},
	{"N.P.E", "string", "string", false, true, true},
	{"Emb.X", "int64", "int", false, true, false},
	{"Emb.Y", "string", "string", false, true, false},
	{"X", "int64", "int", false, false, false},
	{"Tr", "string", "string", false, true, false},
	{"Tag", "int64", "int", false, true, false},
}

var recFieldByPath = func() map[string]*fieldInfo {
	m := map[string]*fieldInfo{}
	for i := range recFields {
		m[recFields[i].Path] = &recFields[i]
	}
	return m
}()

// string paths that may carry upper / lower
var casePaths = []string{"Up", "Lo", "KS", "S", "N.S", "N.In.E", "N.P.E", "Emb.Y"}

// paths that may be unique (never through a pointer, DESIGN 3.8)
var uniquePaths = []string{"K", "KS", "U8", "I64", "F64", "T", "Emb.X"}

func recType() string { return "main.Rec" }
