package main

import (
	"fmt"
	"math"
	"strings"
)

// ---- PRNG-driven histories (DESIGN 3.4) ----

type Mix struct {
	Ins, Upd, Noop, Del, DelAbs, Reins, Many, Bulk, SDel, DelAll, Reopen, Abandon, Create, Flush, Tick int
}

var mixDefault = Mix{Ins: 30, Upd: 25, Noop: 4, Del: 10, DelAbs: 3, Reins: 3, Many: 6, Bulk: 3, SDel: 4, DelAll: 1, Reopen: 5, Abandon: 3, Create: 2, Flush: 3, Tick: 4}

type HistOpts struct {
	Steps   int
	MaxObjs int
	Mix     Mix
	Rec     RecOpts
	// AfterStep runs the driver's oracles.
	AfterStep func(w *World, kind string)
	// BiasUnique makes updates aim at other objects' unique keys.
	BiasUnique bool
}

func (m Mix) pick(r *Rng, w *World) string {
	type kv struct {
		k string
		v int
	}
	items := []kv{{"ins", m.Ins}, {"upd", m.Upd}, {"noop", m.Noop}, {"del", m.Del}, {"delabs", m.DelAbs}, {"reins", m.Reins},
		{"many", m.Many}, {"bulk", m.Bulk}, {"sdel", m.SDel}, {"delall", m.DelAll}, {"reopen", m.Reopen},
		{"abandon", m.Abandon}, {"create", m.Create}, {"flush", m.Flush}, {"tick", m.Tick}}
	tot := 0
	for _, it := range items {
		tot += it.v
	}
	x := r.Intn(tot)
	for _, it := range items {
		if x < it.v {
			return it.k
		}
		x -= it.v
	}
	return "ins"
}

// aimAtUnique copies another stored object's unique key into x (conflict attempt).
func (w *World) aimAtUnique(x *Rec) {
	ups := w.cfg.uniquePathsSorted()
	live := w.m.Live()
	if len(ups) == 0 || len(live) == 0 {
		return
	}
	copyUnique(w.rng, x, w.m.objs[pick(w.rng, live)], pick(w.rng, ups))
}

// copyUnique gives x the value o holds on unique path p.
func copyUnique(r *Rng, x, o *Rec, p string) {
	switch p {
	case "K":
		x.K = o.K
	case "KS":
		x.KS = o.KS
		if r.Bool() {
			x.KS = strings.ToUpper(o.KS)
		}
	case "U8":
		x.U8 = o.U8
	case "I64":
		x.I64 = o.I64
	case "F64":
		x.F64 = o.F64
	case "T":
		x.T = o.T
	case "Emb.X":
		x.X = o.X
	}
}

func (w *World) abs(s string) { w.absOps = append(w.absOps, s) }

func (w *World) slotOf(u string) int {
	for i, o := range w.m.order {
		if o == u {
			return i
		}
	}
	return -1
}

// Step performs one PRNG-chosen step; returns its kind.
func (w *World) Step(o HistOpts) string {
	r := w.rng
	w.step++
	w.lastPut = nil
	kind := o.Mix.pick(r, w)
	live := w.m.Live()
	if len(live) == 0 && (kind == "upd" || kind == "noop" || kind == "del" || kind == "sdel") {
		kind = "ins"
	}
	if len(live) >= o.MaxObjs && (kind == "ins" || kind == "many" || kind == "bulk" || kind == "reins") {
		kind = "del"
	}
	if w.cfg.Async != 0 && kind == "abandon" {
		kind = "reopen" // only Close-reopen is claimed in async mode
	}
	switch kind {
	case "ins":
		x := genRec(r, w.m.tags, o.Rec)
		w.m.tags++
		if o.BiasUnique && r.P(0.4) {
			w.aimAtUnique(x)
		}
		how := "new"
		if r.P(0.07) {
			// an identifier chosen by the caller (a uuid in any letter case), never stored before
			x.Initialize(w.absentUUID())
			how = "new-with-own-id"
		}
		out := w.Put(x, how)
		w.abs("ins>" + out.Class)
	case "upd":
		u := pick(r, live)
		x := w.callerCopy(u)
		mutateRec(r, x, o.Rec)
		if o.BiasUnique && r.P(0.5) {
			w.aimAtUnique(x)
		}
		out := w.Put(x, "update")
		w.abs(fmt.Sprintf("upd:%d>%s", w.slotOf(u), out.Class))
	case "noop":
		u := pick(r, live)
		x := w.callerCopy(u)
		out := w.Put(x, "resave")
		w.abs(fmt.Sprintf("noop:%d>%s", w.slotOf(u), out.Class))
	case "del":
		u := pick(r, live)
		w.Delete(u)
		w.abs(fmt.Sprintf("del:%d", w.slotOf(u)))
	case "delabs":
		u := w.absentUUID()
		if len(w.m.deleted) > 0 && r.Bool() {
			u = pick(r, w.m.deleted)
		}
		w.Delete(u)
		w.abs("delabs")
	case "reins":
		// an already identified object keeps its uuid: re-insert a deleted one
		if len(w.m.deleted) == 0 {
			w.abs("reins-skip")
			break
		}
		u := pick(r, w.m.deleted)
		x := genRec(r, w.m.tags, o.Rec)
		w.m.tags++
		x.Initialize(u)
		out := w.Put(x, "reinsert")
		w.abs(fmt.Sprintf("reins:%d>%s", w.slotOf(u), out.Class))
	case "many", "bulk":
		n := r.Intn(7)
		if room := o.MaxObjs - len(live); n > room+2 {
			n = room + 2
		}
		var batch []*Rec
		for i := 0; i < n; i++ {
			switch {
			case len(live) > 0 && r.P(0.3):
				x := w.callerCopy(pick(r, live))
				mutateRec(r, x, o.Rec)
				batch = append(batch, x)
			case len(batch) > 0 && r.P(0.1):
				batch = append(batch, batch[r.Intn(len(batch))]) // same pointer repeated
			default:
				x := genRec(r, w.m.tags, o.Rec)
				w.m.tags++
				if o.BiasUnique && r.P(0.3) {
					w.aimAtUnique(x)
				}
				if ups := w.cfg.uniquePathsSorted(); o.BiasUnique && len(batch) > 0 && len(ups) > 0 && r.P(0.2) {
					// the unique value of an earlier member of this very batch, possibly in another
					// letter case (equal only once the constraints have been applied)
					up := pick(r, ups)
					if c := w.cfg.Fields["KS"]; c.Unique && (c.Lower || c.Upper) && r.Bool() {
						up = "KS"
					}
					copyUnique(r, x, batch[r.Intn(len(batch))], up)
				}
				batch = append(batch, x)
			}
		}
		if ups := w.cfg.uniquePathsSorted(); o.BiasUnique && len(live) > 0 && len(ups) > 0 && r.P(0.15) {
			// one stored object twice, as two distinct values, the later copy holding the unique
			// value of a third member: [.., v1, .., other, .., v2, ..] in any order
			u := pick(r, live)
			v1, v2 := w.callerCopy(u), w.callerCopy(u)
			mutateRec(r, v1, o.Rec)
			mutateRec(r, v2, o.Rec)
			other := genRec(r, w.m.tags, o.Rec)
			w.m.tags++
			if len(live) > 1 && r.P(0.3) {
				other = w.callerCopy(pick(r, live))
			}
			if other.UUID() != u {
				copyUnique(r, v2, other, pick(r, ups))
				trio := []*Rec{v1, other, v2}
				if r.P(0.3) {
					j := r.Intn(3)
					trio[0], trio[j] = trio[j], trio[0]
				}
				batch = append(batch, trio...)
			}
		}
		if kind == "many" {
			foreign := -1
			if w.predict && len(batch) > 0 && r.P(0.08) {
				foreign = r.Intn(len(batch) + 1)
			}
			n, err, _ := w.Many(batch, foreign, "InsertOrUpdateMany")
			w.abs(fmt.Sprintf("many:%d>%d,%s", len(batch), n, errClass(err)))
		} else {
			// "all chunk sizes"
			cs := pick(r, []int{0, 1, 2, 3, len(batch), len(batch) + 1, 0, 1, 2, 3, len(batch), len(batch) + 1, -1, math.MaxInt, math.MinInt})
			w.Bulk(batch, cs)
			w.abs(fmt.Sprintf("bulk:%d/%d", len(batch), cs))
		}
	case "sdel":
		u := pick(r, live)
		f := recFields[r.Intn(len(recFields))]
		v, _ := leaf(w.m.objs[u], f.Path)
		op := pick(r, opsAll[:6])
		w.SearchDelete(Query{f.Path, op, v})
		w.abs("sdel:" + f.Path + op)
	case "delall":
		w.DeleteAll()
		w.abs("delall")
	case "reopen":
		w.Reopen(r.Bool())
		w.abs("reopen")
	case "abandon":
		w.Abandon()
		w.abs("abandon")
	case "create":
		same := r.Bool()
		w.logf("Create(again) same-schema-value=%v", same)
		var err error
		if same {
			err = w.CreateSameValue()
		} else {
			err = w.Create()
		}
		if err != nil {
			w.fail("create-failed", "Create(again)", "-", err.Error())
		}
		clockSettle()
		w.abs("create")
	case "flush":
		commitToo := r.Bool()
		if r.P(0.4) && len(live) > 0 {
			// the single-object flush names an object; it is not a write: whatever the caller's
			// copy holds by now, reads keep showing the last accepted values (model unchanged)
			x := w.callerCopy(pick(r, live))
			how := "same"
			switch {
			case r.P(0.45):
				mutateRec(r, x, o.Rec)
				how = "modified-copy"
			case r.P(0.15):
				x = genRec(r, w.m.tags, o.Rec)
				w.m.tags++
				x.Initialize(w.absentUUID())
				how = "never-stored"
			}
			api := "Flush"
			if commitToo {
				api = "FlushAndCommit"
			}
			w.logf("%s(%s) uuid=%s %s", api, how, short(x.UUID()), recBrief(x))
			w.call(api, func() {
				if commitToo {
					w.db.FlushAndCommit(x)
				} else {
					w.db.Flush(x)
				}
			})
			if how == "never-stored" {
				w.checkAbsent(x.UUID())
			}
			w.abs("flush1:" + how)
			break
		}
		if w.cfg.Async == 0 {
			w.abs("flush")
			break
		}
		var err error
		if !commitToo {
			w.logf("FlushAll")
			w.call("FlushAll", func() { err = w.db.FlushAll(&Rec{}) })
		} else {
			w.logf("FlushAllAndCommit")
			w.call("FlushAllAndCommit", func() { err = w.db.FlushAllAndCommit(&Rec{}) })
		}
		if err != nil {
			w.fail("flush-error", "Flush", "-", err.Error())
		}
		w.abs("flush")
	case "tick":
		if w.cfg.Async == 2 {
			w.logf("tick")
			clockTick()
		}
		w.abs("tick")
	}
	if o.AfterStep != nil && !w.failed() {
		o.AfterStep(w, kind)
	}
	return kind
}

// Run performs a whole history.
func (w *World) Run(o HistOpts) {
	for i := 0; i < o.Steps && !w.failed(); i++ {
		w.Step(o)
	}
}
