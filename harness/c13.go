package main

import (
	"fmt"
	"math"
	"sort"

	"github.com/0xrawsec/sod"
)

// C13 — order, Reverse, Limit, One, AssignIndex (DESIGN 4/C13).

func init() {
	drivers["C13"] = &driver{cases: tierN(200, 6000), run: runC13}
}

// build constructs a fresh search for a query chain (all And).
func (w *World) buildSearch(chain []Query) *sod.Search {
	s := w.db.Search(&Rec{}, chain[0].Path, chain[0].Op, chain[0].Probe)
	for _, q := range chain[1:] {
		s = s.And(q.Path, q.Op, q.Probe)
	}
	return s
}

func chainString(chain []Query) string {
	s := chain[0].String()
	for _, q := range chain[1:] {
		s += " AND " + q.String()
	}
	return s
}

func (w *World) collectUUIDs(api string, mk func() *sod.Search, viaAssign bool) (us []string, recs []*Rec, ok bool) {
	var err error
	if w.call(api, func() {
		s := mk()
		if err = s.Err(); err != nil {
			return
		}
		if viaAssign {
			err = s.Assign(&recs)
		} else {
			var objs []sod.Object
			objs, err = s.Collect()
			recs, _ = objsToRecs(objs)
		}
	}) {
		return nil, nil, false
	}
	if err != nil {
		w.fail("order-search-error", api, "-", err.Error())
		return nil, nil, false
	}
	return uuidsOf(recs), recs, true
}

func (w *World) checkOrder(chain []Query, pool []Query) {
	last := chain[len(chain)-1]
	p := last.Path
	desc := chainString(chain)
	stats.Count("order_queries", 1)
	mk := func() *sod.Search { return w.buildSearch(chain) }
	full, recs, ok := w.collectUUIDs("Search.Collect", mk, false)
	if !ok {
		return
	}
	api := fmt.Sprintf("Collect(len=%d)", len(chain))
	// non-increasing in the last searched indexed field (values as stored)
	for i := 1; i < len(recs); i++ {
		a, _ := recKey(recs[i-1], p)
		b, _ := recKey(recs[i], p)
		if cmpKey(a, b) < 0 {
			w.fail("order-not-nonincreasing", api, "-", fmt.Sprintf("%s: element %d (%s) < element %d (%s)", desc, i-1, a, i, b))
			return
		}
	}
	m := len(full)
	fullSet := map[string]bool{}
	for _, u := range full {
		fullSet[u] = true
	}
	keysOf := func(rs []*Rec) []Key {
		ks := make([]Key, len(rs))
		for i, r := range rs {
			ks[i], _ = recKey(r, p)
		}
		return ks
	}
	sameKeys := func(a, b []Key) bool {
		if len(a) != len(b) {
			return false
		}
		for i := range a {
			if cmpKey(a[i], b[i]) != 0 {
				return false
			}
		}
		return true
	}
	// prefixOK: got must be "the first min(n, m) of the chosen order". The
	// order among ties is unspecified (and, after a scan of an unindexed
	// field, not even deterministic), so the comparison is on the key
	// sequence; members must come from the match set, each at most once.
	prefixOK := func(got []string, grecs []*Rec, ref []Key, n uint64) string {
		wantLen := len(ref)
		if n < uint64(wantLen) {
			wantLen = int(n)
		}
		if len(got) != wantLen {
			return fmt.Sprintf("returned %d objects, want %d", len(got), wantLen)
		}
		dup := map[string]bool{}
		for _, u := range got {
			if !fullSet[u] {
				return "returned an object outside the match set: " + short(u)
			}
			if dup[u] {
				return "returned an object twice: " + short(u)
			}
			dup[u] = true
		}
		if !sameKeys(keysOf(grecs), ref[:wantLen]) {
			return fmt.Sprintf("key sequence %v is not the first %d of %v", keysOf(grecs), wantLen, ref)
		}
		return ""
	}
	fullKeys := keysOf(recs)
	// a search value that was refined further (And / Or derive new searches) is still the search it
	// was: same matches, same order
	if len(pool) > 0 {
		refined := ""
		got, grecs, ok := w.collectUUIDs("Search.kept.Collect", func() *sod.Search {
			s := mk()
			for i, n := 0, 1+w.rng.Intn(2); i < n; i++ {
				q := pool[w.rng.Intn(len(pool))]
				if w.rng.P(0.7) {
					s.And(q.Path, q.Op, q.Probe).Len()
					refined += " .And(" + q.String() + ")"
				} else {
					s.Or(q.Path, q.Op, q.Probe).Len()
					refined += " .Or(" + q.String() + ")"
				}
			}
			return s
		}, false)
		if !ok {
			return
		}
		if why := prefixOK(got, grecs, fullKeys, math.MaxUint64); why != "" {
			w.fail("refined-parent-changed", api, "-", fmt.Sprintf("%s collected after deriving%s from it: %s", desc, refined, why))
			return
		}
		stats.Count("kept_search_checks", 1)
	}
	// Reverse
	rev, rrecs, ok := w.collectUUIDs("Search.Reverse.Collect", func() *sod.Search { return mk().Reverse() }, false)
	if !ok {
		return
	}
	for i := 1; i < len(rrecs); i++ {
		a, _ := recKey(rrecs[i-1], p)
		b, _ := recKey(rrecs[i], p)
		if cmpKey(a, b) > 0 {
			w.fail("reverse-not-nondecreasing", "Reverse", "-", fmt.Sprintf("%s: element %d (%s) > element %d (%s)", desc, i-1, a, i, b))
			return
		}
	}
	if fmt.Sprint(sortedCopy(rev)) != fmt.Sprint(sortedCopy(full)) {
		w.fail("reverse-different-set", "Reverse", "-", fmt.Sprintf("%s: %s vs %s", desc, shortList(rev), shortList(full)))
		return
	}
	revKeys := keysOf(rrecs)
	// Limit
	limits := []uint64{0, 1, uint64(m), uint64(m + 1), math.MaxUint64}
	if m > 1 {
		limits = append(limits, uint64(m-1))
	}
	if m > 3 {
		limits = append(limits, uint64(1+w.rng.Intn(m-1)))
	}
	for _, n := range limits {
		n := n
		got, grecs, ok := w.collectUUIDs("Search.Limit.Collect", func() *sod.Search { return mk().Limit(n) }, w.rng.P(0.2))
		if !ok {
			return
		}
		if why := prefixOK(got, grecs, fullKeys, n); why != "" {
			w.fail("limit-not-prefix", limitClass(n, m), "-", fmt.Sprintf("%s Limit(%d): %s", desc, n, why))
			return
		}
		// the two modifiers commute: the order they are called in is not part of the statement
		limitFirst := w.rng.Bool()
		got, grecs, ok = w.collectUUIDs("Search.Reverse.Limit.Collect", func() *sod.Search {
			if limitFirst {
				return mk().Limit(n).Reverse()
			}
			return mk().Reverse().Limit(n)
		}, false)
		if !ok {
			return
		}
		if why := prefixOK(got, grecs, revKeys, n); why != "" {
			how := "Reverse()." + limitClass(n, m)
			if limitFirst {
				how = limitClass(n, m) + ".Reverse()"
			}
			w.fail("limit-not-prefix", how, "-", fmt.Sprintf("%s %s with n=%d: %s", desc, how, n, why))
			return
		}
	}
	// a search value is not consumed by collecting it: the same limited search collected again, or
	// collected after One, still returns the first min(n, matches)
	if m > 0 {
		n := uint64(1 + w.rng.Intn(m))
		afterOne := w.rng.P(0.4)
		var again []*Rec
		var err2 error
		if w.call("Search.Limit.Collect(twice)", func() {
			s := mk().Limit(n)
			if err2 = s.Err(); err2 != nil {
				return
			}
			if afterOne {
				_, err2 = s.One()
			} else {
				_, err2 = s.Collect()
			}
			if err2 != nil {
				return
			}
			var objs []sod.Object
			objs, err2 = s.Collect()
			again, _ = objsToRecs(objs)
		}) {
			return
		}
		if err2 != nil {
			w.fail("order-search-error", "Search.Limit.Collect(twice)", "-", err2.Error())
			return
		}
		if why := prefixOK(uuidsOf(again), again, fullKeys, n); why != "" {
			first := "Collect"
			if afterOne {
				first = "One"
			}
			w.fail("limit-consumed", limitClass(n, m), first, fmt.Sprintf("%s Limit(%d) collected a second time (after %s): %s", desc, n, first, why))
			return
		}
		stats.Count("recollect_checks", 1)
	}
	// One / AssignOne: the first element (by key; any member of the first tie group)
	checkOne := func(api string, o sod.Object, err error) {
		if m == 0 {
			if !sod.IsNoObjectFound(err) {
				w.fail("one-empty", api, "-", fmt.Sprintf("%s: err=%v", desc, err))
			}
			return
		}
		r, isRec := o.(*Rec)
		if err != nil || !isRec || r == nil {
			w.fail("one-not-first", api, "-", fmt.Sprintf("%s: err=%v", desc, err))
			return
		}
		k, _ := recKey(r, p)
		if !fullSet[r.UUID()] || cmpKey(k, fullKeys[0]) != 0 {
			w.fail("one-not-first", api, "-", fmt.Sprintf("%s: got %s key %s, first key is %s", desc, short(r.UUID()), k, fullKeys[0]))
		}
	}
	var o sod.Object
	var err error
	if w.call("Search.One", func() { o, err = mk().One() }) {
		return
	}
	checkOne("One", o, err)
	var target sod.Object = &Rec{}
	if w.call("Search.AssignOne", func() { err = mk().AssignOne(&target) }) {
		return
	}
	checkOne("AssignOne", target, err)
}

func limitClass(n uint64, m int) string {
	switch {
	case n == 0:
		return "Limit(0)"
	case n == math.MaxUint64:
		return "Limit(max)"
	case n < uint64(m):
		return "Limit(<m)"
	case n == uint64(m):
		return "Limit(m)"
	}
	return "Limit(>m)"
}

func (w *World) checkAssignIndex(p string) {
	keys, err, panicked := w.assignIndex(p)
	if panicked {
		return
	}
	if err != nil {
		w.fail("assignindex-error", "AssignIndex", "-", fmt.Sprintf("%s: %v", p, err))
		return
	}
	var want []Key
	for _, x := range w.m.objs {
		k, _ := recKey(x, p)
		want = append(want, k)
	}
	sort.Slice(want, func(i, j int) bool { return cmpKey(want[i], want[j]) > 0 })
	for i := 1; i < len(keys); i++ {
		if cmpKey(keys[i-1], keys[i]) < 0 {
			w.fail("assignindex-order", "AssignIndex", "-", fmt.Sprintf("%s: %v", p, keys))
			return
		}
	}
	same := len(keys) == len(want)
	for i := 0; same && i < len(keys); i++ {
		same = cmpKey(keys[i], want[i]) == 0
	}
	if !same {
		w.fail("assignindex-values", "AssignIndex", "-", fmt.Sprintf("%s: got %v want %v", p, keys, want))
	}
	stats.Count("assignindex_checks", 1)
}

func runC13(k int, rng *Rng) CaseResult {
	cfg := genConfig(rng, GenOpts{IndexBias: 0.6})
	clockNewCase(clockModeFor(cfg))
	installHooks(stdHooks())
	w := NewWorld("C13", rng, cfg, caseDir(k, "c13"))
	w.storeWant = false
	defer w.Cleanup()
	if !w.OpenCreate() {
		return w.finish(nil, false, nil)
	}
	o := HistOpts{Steps: 4 + rng.Intn(26), MaxObjs: 14, Rec: RecOpts{ValidOnly: true, Simple: true},
		Mix: Mix{Ins: 45, Upd: 30, Del: 8, Many: 6, Reopen: 4, Tick: 1}}
	if k%10 == 0 {
		o.Steps = k % 3 // empty / tiny collections
	}
	w.Run(o)
	var idx []string
	for _, f := range recFields {
		if cfg.indexed(f.Path) {
			idx = append(idx, f.Path)
		}
	}
	nq := 0
	if !w.failed() && len(idx) > 0 {
		all := w.evaluable(w.queriesFor(allSearchPaths()))
		for _, p := range idx {
			if w.failed() {
				break
			}
			w.checkAssignIndex(p)
			qs := w.evaluable(w.queriesFor([]string{p}))
			for i := 0; i < 10 && !w.failed() && len(qs) > 0; i++ {
				q := qs[rng.Intn(len(qs))]
				chain := []Query{q}
				if rng.P(0.4) && len(all) > 0 {
					// And chain whose last comparison is on the indexed field
					chain = []Query{all[rng.Intn(len(all))], q}
					if rng.P(0.3) {
						chain = []Query{all[rng.Intn(len(all))], all[rng.Intn(len(all))], q}
					}
				}
				w.checkOrder(chain, all)
				nq++
			}
		}
	}
	var sample interface{}
	if k < sampleMax {
		sample = map[string]interface{}{"config": cfg.String(), "content_ops": w.absOps, "indexed_fields": idx, "ordered_queries": nq, "objects": w.m.Len()}
	}
	return w.finish(w.absOps, nq > 0 && w.m.Len() >= 2, sample)
}
