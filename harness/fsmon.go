package main

import (
	"crypto/sha256"
	"encoding/hex"
	"io/fs"
	"os"
	"path/filepath"
	"sort"
	"strings"
	"sync"
	"syscall"
)

// ---- M3: FS recorder / crash snapshotter / fault injector ----

type fsSnapshot struct {
	Files map[string][]byte // relative path -> content ("<dir>" for directories)
	Hash  string
	Op    string // event that produced it
	Phase string
	Site  string
	Path  string
	Seq   int
	Step  int
	// Window: the last event that changed the visible tree (schema.json and
	// files named like object files); leftovers such as temporary files of an
	// atomic-write scheme do not open a new window
	Window string
}

type fsEventRec struct {
	Op, Phase, Path, Site string
	Mutating              bool
}

var fsmon = struct {
	mu       sync.Mutex
	mode     string // "" | record | snapshot | inject
	root     string
	step     int
	events   []fsEventRec
	snaps    []*fsSnapshot
	lastHash string
	visHash  string
	visFiles map[string][]byte
	window   string
	// inject
	target   int // ordinal (1-based) of the "pre" event of the current call to fail
	count    int // "pre" events seen in the current call
	errno    syscall.Errno
	short    bool
	injected *fsEventRec
	goid     int64 // only events of this goroutine are counted for injection
}{}

func fsReset(mode, root string) {
	fsmon.mu.Lock()
	fsmon.mode, fsmon.root = mode, root
	fsmon.events, fsmon.snaps, fsmon.lastHash = nil, nil, ""
	fsmon.visHash, fsmon.window, fsmon.visFiles = "", "-", nil
	fsmon.target, fsmon.count, fsmon.injected = 0, 0, nil
	fsmon.step = 0
	fsmon.mu.Unlock()
}

func fsSetStep(i int) {
	fsmon.mu.Lock()
	fsmon.step = i
	fsmon.mu.Unlock()
}

// fsArm makes the n-th FS event of the next API call (issued by the calling
// goroutine) fail.
func fsArm(n int, errno syscall.Errno, short bool) {
	fsmon.mu.Lock()
	fsmon.target, fsmon.count, fsmon.errno, fsmon.short, fsmon.injected = n, 0, errno, short, nil
	fsmon.goid = gid()
	fsmon.mu.Unlock()
}

func fsDisarm() (injected *fsEventRec, seen int) {
	fsmon.mu.Lock()
	defer fsmon.mu.Unlock()
	injected, seen = fsmon.injected, fsmon.count
	fsmon.target = 0
	return
}

func readTree(root string) map[string][]byte {
	files := map[string][]byte{}
	filepath.WalkDir(root, func(p string, d fs.DirEntry, err error) error {
		if err != nil {
			return nil
		}
		rel, _ := filepath.Rel(root, p)
		if rel == "." {
			return nil
		}
		if d.IsDir() {
			files[rel] = nil
			return nil
		}
		if d.Type()&fs.ModeSymlink != 0 {
			return nil
		}
		b, err := os.ReadFile(p)
		if err == nil {
			if b == nil {
				b = []byte{}
			}
			files[rel] = b
		}
		return nil
	})
	return files
}

func hashTree(files map[string][]byte) string {
	names := make([]string, 0, len(files))
	for n := range files {
		names = append(names, n)
	}
	sort.Strings(names)
	h := sha256.New()
	for _, n := range names {
		h.Write([]byte(n))
		h.Write([]byte{0})
		if files[n] == nil {
			h.Write([]byte("<dir>"))
		} else {
			h.Write(files[n])
		}
		h.Write([]byte{1})
	}
	return hex.EncodeToString(h.Sum(nil)[:12])
}

func materialise(files map[string][]byte, root string) error {
	names := make([]string, 0, len(files))
	for n := range files {
		names = append(names, n)
	}
	sort.Strings(names)
	if err := os.MkdirAll(root, 0o700); err != nil {
		return err
	}
	for _, n := range names {
		p := filepath.Join(root, n)
		if files[n] == nil {
			if err := os.MkdirAll(p, 0o700); err != nil {
				return err
			}
			continue
		}
		os.MkdirAll(filepath.Dir(p), 0o700)
		if err := os.WriteFile(p, files[n], 0o700); err != nil {
			return err
		}
	}
	return nil
}

func relTo(root, p string) string {
	if r, err := filepath.Rel(root, p); err == nil && !strings.HasPrefix(r, "..") {
		return r
	}
	return p
}

// fsHook is installed as the shim's FS hook.
func fsHook(ev *FSEvent) error {
	fsmon.mu.Lock()
	defer fsmon.mu.Unlock()
	switch fsmon.mode {
	case "":
		return nil
	case "record":
		if ev.Phase == "pre" {
			site := sodSite(3)
			fsmon.events = append(fsmon.events, fsEventRec{ev.Op, ev.Phase, relTo(fsmon.root, ev.Path), site, ev.Mutating})
			stats.SetAdd("fs_sites", ev.Op+"@"+site)
			stats.Count("fs_events", 1)
		}
	case "snapshot":
		if ev.Phase == "pre" {
			stats.SetAdd("fs_sites", ev.Op+"@"+sodSite(3))
			stats.Count("fs_events", 1)
		}
		if ev.Mutating && ev.Phase != "pre" {
			files := readTree(fsmon.root)
			h := hashTree(files)
			if h != fsmon.lastHash {
				fsmon.lastHash = h
				vis := map[string][]byte{}
				for n, b := range files {
					base := filepath.Base(n)
					if b != nil && (base == "schema.json" || (len(base) > 37 && base[36] == '.' && uuidRe.MatchString(strings.ToLower(base[:36])))) {
						vis[n] = b
					}
				}
				if vh := hashTree(vis); vh != fsmon.visHash {
					fsmon.visHash = vh
					// the window is named after what changed in the visible
					// tree, not after the code that changed it
					fsmon.window = visibleChange(fsmon.visFiles, vis)
					fsmon.visFiles = vis
				}
				fsmon.snaps = append(fsmon.snaps, &fsSnapshot{Window: fsmon.window, Files: files, Hash: h, Op: ev.Op, Phase: ev.Phase, Site: sodSite(3), Path: relTo(fsmon.root, ev.Path), Seq: len(fsmon.snaps), Step: fsmon.step})
			}
		}
	case "inject":
		if ev.Phase != "pre" || fsmon.target == 0 || gid() != fsmon.goid {
			return nil
		}
		fsmon.count++
		if fsmon.count == fsmon.target {
			site := sodSite(3)
			fsmon.injected = &fsEventRec{ev.Op, ev.Phase, relTo(fsmon.root, ev.Path), site, ev.Mutating}
			stats.SetAdd("faults_injected_at", ev.Op+"@"+site)
			stats.Count("faults_injected", 1)
			if fsmon.short && ev.Op == "write" && ev.N > 1 {
				return &ShortWrite{N: ev.N / 2, Err: fsmon.errno}
			}
			return fsmon.errno
		}
	}
	return nil
}

func fsSnapshots() []*fsSnapshot {
	fsmon.mu.Lock()
	defer fsmon.mu.Unlock()
	return append([]*fsSnapshot(nil), fsmon.snaps...)
}

// takeSnapshotNow records the current directory (used for acknowledged states).
func takeSnapshotNow(label string) *fsSnapshot {
	fsmon.mu.Lock()
	defer fsmon.mu.Unlock()
	files := readTree(fsmon.root)
	return &fsSnapshot{Files: files, Hash: hashTree(files), Op: label, Phase: "ack", Site: "-", Step: fsmon.step}
}

func fsHooks(split bool) *Hooks {
	return &Hooks{FS: fsHook, SplitWrites: split, Sleep: clockSleep, Go: clockGo}
}

// visibleChange names the difference between two visible trees: which class
// of file (schema / object) was created, modified or removed.
func visibleChange(old, cur map[string][]byte) string {
	kinds := map[string]bool{}
	class := func(n string) string {
		if filepath.Base(n) == "schema.json" {
			return "schema"
		}
		return "object"
	}
	for n, b := range cur {
		if ob, ok := old[n]; !ok {
			kinds[class(n)+"-created"] = true
		} else if string(ob) != string(b) {
			kinds[class(n)+"-modified"] = true
		}
	}
	for n := range old {
		if _, ok := cur[n]; !ok {
			kinds[class(n)+"-removed"] = true
		}
	}
	var ks []string
	for k := range kinds {
		ks = append(ks, k)
	}
	sort.Strings(ks)
	if len(ks) == 0 {
		return "-"
	}
	return strings.Join(ks, "+")
}
