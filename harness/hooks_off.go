//go:build !verifshim

package main

const shimAvailable = false

func installHooks(h *Hooks) {}
