package main

import (
	"fmt"
	"os"
	"runtime"
	"sort"
	"strings"
	"sync"
	"sync/atomic"
	"time"

	"github.com/0xrawsec/sod"
	"github.com/anishathalye/porcupine"
)

// C08 — concurrent calls are linearizable and race-free (DESIGN 4/C08, M6, M7).
// This driver always runs under the race detector; its reports are collected
// by the runner. Histories recorded at the client boundary are checked with
// porcupine against a small sequential model.

func init() {
	drivers["C08"] = &driver{race: true, cases: tierN(600, 12000), run: runC08}
}

// ---- sequential specification ----

type lzIn struct {
	Kind  string // ins upd del get exist count all slen many delall flush create
	UUID  string
	K, I  int
	Batch [][2]int // (K, I) of new objects
	Path  string
	Op    string
	V     int
}

type lzOut struct {
	Class string
	UUID  string
	UUIDs []string
	Found bool
	K, I  int
	N     int
	Set   string
}

type lzObj struct {
	U    string
	K, I int
}

// state: objects sorted by uuid, encoded as a string (immutable, comparable)
func lzEncode(objs []lzObj) string {
	sort.Slice(objs, func(i, j int) bool { return objs[i].U < objs[j].U })
	var b strings.Builder
	for _, o := range objs {
		fmt.Fprintf(&b, "%s,%d,%d;", o.U, o.K, o.I)
	}
	return b.String()
}

func lzDecode(s string) []lzObj {
	var out []lzObj
	for _, p := range strings.Split(s, ";") {
		if p == "" {
			continue
		}
		var o lzObj
		f := strings.Split(p, ",")
		o.U = f[0]
		fmt.Sscan(f[1], &o.K)
		fmt.Sscan(f[2], &o.I)
		out = append(out, o)
	}
	return out
}

func lzCmp(a int, op string, b int) bool {
	switch op {
	case "=":
		return a == b
	case "!=":
		return a != b
	case "<":
		return a < b
	case "<=":
		return a <= b
	case ">":
		return a > b
	case ">=":
		return a >= b
	}
	return false
}

func lzStep(state, input, output interface{}) (bool, interface{}) {
	st := state.(string)
	in := input.(lzIn)
	out := output.(lzOut)
	objs := lzDecode(st)
	find := func(u string) int {
		for i, o := range objs {
			if o.U == u {
				return i
			}
		}
		return -1
	}
	holder := func(k int, except string) bool {
		for _, o := range objs {
			if o.K == k && o.U != except {
				return true
			}
		}
		return false
	}
	switch in.Kind {
	case "ins":
		if holder(in.K, "") {
			return out.Class == "unique", st
		}
		if out.Class != "nil" || out.UUID == "" || find(out.UUID) >= 0 {
			return false, st
		}
		return true, lzEncode(append(objs, lzObj{out.UUID, in.K, in.I}))
	case "upd": // InsertOrUpdate of an identified object is an upsert
		if holder(in.K, in.UUID) {
			return out.Class == "unique", st
		}
		if out.Class != "nil" {
			return false, st
		}
		if i := find(in.UUID); i >= 0 {
			objs[i].K, objs[i].I = in.K, in.I
		} else {
			objs = append(objs, lzObj{in.UUID, in.K, in.I})
		}
		return true, lzEncode(objs)
	case "del":
		if out.Class != "nil" {
			return false, st
		}
		if i := find(in.UUID); i >= 0 {
			objs = append(objs[:i], objs[i+1:]...)
		}
		return true, lzEncode(objs)
	case "get":
		i := find(in.UUID)
		if i < 0 {
			return !out.Found, st
		}
		return out.Found && out.K == objs[i].K && out.I == objs[i].I, st
	case "exist":
		return out.Found == (find(in.UUID) >= 0), st
	case "count":
		return out.Class == "nil" && out.N == len(objs), st
	case "all":
		return out.Class == "nil" && out.Set == st, st
	case "slen":
		n := 0
		for _, o := range objs {
			v := o.K
			if in.Path == "I" {
				v = o.I
			}
			if lzCmp(v, in.Op, in.V) {
				n++
			}
		}
		return out.Class == "nil" && out.N == n, st
	case "many":
		conflict := false
		for i, b := range in.Batch {
			if holder(b[0], "") {
				conflict = true
			}
			for j := i + 1; j < len(in.Batch); j++ {
				if in.Batch[j][0] == b[0] {
					conflict = true
				}
			}
		}
		if conflict {
			return out.Class == "unique" && out.N == 0, st
		}
		if out.Class != "nil" || out.N != len(in.Batch) || len(out.UUIDs) != len(in.Batch) {
			return false, st
		}
		for i, b := range in.Batch {
			if out.UUIDs[i] == "" || find(out.UUIDs[i]) >= 0 {
				return false, st
			}
			objs = append(objs, lzObj{out.UUIDs[i], b[0], b[1]})
		}
		return true, lzEncode(objs)
	case "aidx":
		// AssignIndex: the field value of every stored object, non-increasing
		var vals []int
		for _, o := range objs {
			if in.Path == "I" {
				vals = append(vals, o.I)
			} else {
				vals = append(vals, o.K)
			}
		}
		sort.Sort(sort.Reverse(sort.IntSlice(vals)))
		return out.Class == "nil" && out.Set == fmt.Sprint(vals), st
	case "delall":
		return out.Class == "nil", ""
	case "flush", "create":
		return out.Class == "nil", st
	}
	return false, st
}

func lzDescribe(input, output interface{}) string {
	in, out := input.(lzIn), output.(lzOut)
	u := short(in.UUID)
	switch in.Kind {
	case "ins":
		return fmt.Sprintf("ins(K=%d,I=%d)->%s %s", in.K, in.I, out.Class, short(out.UUID))
	case "upd":
		return fmt.Sprintf("upd(%s,K=%d,I=%d)->%s", u, in.K, in.I, out.Class)
	case "del":
		return fmt.Sprintf("del(%s)->%s", u, out.Class)
	case "get":
		return fmt.Sprintf("get(%s)->found=%v K=%d I=%d", u, out.Found, out.K, out.I)
	case "exist":
		return fmt.Sprintf("exist(%s)->%v", u, out.Found)
	case "count":
		return fmt.Sprintf("count->%d", out.N)
	case "all":
		return fmt.Sprintf("all->%d objects", strings.Count(out.Set, ";"))
	case "slen":
		return fmt.Sprintf("len(%s %s %d)->%d", in.Path, in.Op, in.V, out.N)
	case "many":
		return fmt.Sprintf("many(%v)->n=%d %s", in.Batch, out.N, out.Class)
	case "aidx":
		return fmt.Sprintf("assignindex(%s)->%s", in.Path, out.Set)
	}
	return in.Kind + "->" + out.Class
}

var lzModel = porcupine.Model{
	Init:              func() interface{} { return "" },
	Step:              lzStep,
	Equal:             func(a, b interface{}) bool { return a.(string) == b.(string) },
	DescribeOperation: lzDescribe,
	DescribeState:     func(s interface{}) string { return fmt.Sprintf("%d objects", strings.Count(s.(string), ";")) },
}

// ---- workload ----

var lzClock int64

func tick() int64 { return atomic.AddInt64(&lzClock, 1) }

func c08Config(rng *Rng) Config {
	cfg := Config{Ext: ".json", Fields: map[string]Cons{"K": {Index: true, Unique: true}, "I": {Index: true}}}
	switch rng.Intn(4) {
	case 1:
		cfg.Cache = true
	case 2:
		cfg.Async, cfg.Threshold, cfg.Timeout = 2, pick(rng, []int{1, 3}), 100*time.Millisecond
	case 3:
		cfg.Cache, cfg.Compress = true, true
	}
	if rng.P(0.3) {
		cfg.Fields["Tag"] = Cons{Index: true}
	}
	return cfg
}

// yieldHooks perturbs the schedule at FS call sites and before lock requests
// (between critical sections, never inside sync itself).
func yieldHooks(seed uint64) *Hooks {
	var ctr uint64
	y := func() {
		n := sm64(seed + atomic.AddUint64(&ctr, 1))
		switch n % 8 {
		case 0, 1, 2:
			runtime.Gosched()
		case 3:
			time.Sleep(time.Duration(n>>8%40) * time.Microsecond)
		}
	}
	return &Hooks{
		FS: func(ev *FSEvent) error {
			if ev.Phase == "pre" {
				y()
			}
			return nil
		},
		Lock: func(op string, mu interface{}) {
			if op == "lock?" || op == "rlock?" {
				y()
			}
		},
		Sleep: clockSleep, Go: clockGo,
	}
}

type lzClient struct {
	id  int
	rng *Rng
	ops []porcupine.Operation
}

func lzRec(k, i int) *Rec { return &Rec{K: k, I: i, KS: fmt.Sprint("k", k)} }

func (c *lzClient) do(db *sod.DB, in lzIn, known func() string) {
	var out lzOut
	call := tick()
	func() {
		defer func() {
			if r := recover(); r != nil {
				out.Class = fmt.Sprintf("panic:%v", r)
			}
		}()
		switch in.Kind {
		case "ins":
			x := lzRec(in.K, in.I)
			out.Class = errClass(db.InsertOrUpdate(x))
			out.UUID = x.UUID()
		case "upd":
			x := lzRec(in.K, in.I)
			x.Initialize(in.UUID)
			out.Class = errClass(db.InsertOrUpdate(x))
		case "del":
			x := &Rec{}
			x.Initialize(in.UUID)
			out.Class = errClass(db.Delete(x))
		case "get":
			x := &Rec{}
			x.Initialize(in.UUID)
			o, err := db.Get(x)
			if err == nil && o != nil {
				r := o.(*Rec)
				out.Found, out.K, out.I = true, r.K, r.I
			} else if !isNotFound(err) {
				out.Class = errClass(err)
			}
		case "exist":
			x := &Rec{}
			x.Initialize(in.UUID)
			ok, err := db.Exist(x)
			out.Found = ok
			out.Class = errClass(err)
		case "count":
			n, err := db.Count(&Rec{})
			out.N, out.Class = n, errClass(err)
		case "all":
			var objs []lzObj
			var err error
			if c.rng.Bool() {
				var all []sod.Object
				all, err = db.All(&Rec{})
				for _, o := range all {
					r := o.(*Rec)
					objs = append(objs, lzObj{r.UUID(), r.K, r.I})
				}
			} else {
				var all []*Rec
				err = db.AssignAll(&Rec{}, &all)
				for _, r := range all {
					objs = append(objs, lzObj{r.UUID(), r.K, r.I})
				}
			}
			out.Class, out.Set = errClass(err), lzEncode(objs)
		case "slen":
			s := db.Search(&Rec{}, in.Path, in.Op, in.V)
			out.Class, out.N = errClass(s.Err()), s.Len()
		case "many":
			var batch []sod.Object
			var recs []*Rec
			for _, b := range in.Batch {
				x := lzRec(b[0], b[1])
				recs = append(recs, x)
				batch = append(batch, x)
			}
			n, err := db.InsertOrUpdateMany(batch...)
			out.N, out.Class = n, errClass(err)
			for _, x := range recs {
				out.UUIDs = append(out.UUIDs, x.UUID())
			}
		case "aidx":
			var vals []int
			err := db.AssignIndex(&Rec{}, in.Path, &vals)
			if vals == nil {
				vals = []int{}
			}
			out.Class, out.Set = errClass(err), fmt.Sprint(vals)
		case "delall":
			out.Class = errClass(db.DeleteAll(&Rec{}))
		case "flush":
			if c.rng.Bool() {
				out.Class = errClass(db.FlushAll(&Rec{}))
			} else {
				out.Class = errClass(db.FlushAllAndCommit(&Rec{}))
			}
		case "create":
			out.Class = errClass(db.Create(&Rec{}, schemaFor(c08cfg, &Rec{})))
		}
	}()
	ret := tick()
	c.ops = append(c.ops, porcupine.Operation{ClientId: c.id, Input: in, Call: call, Output: out, Return: ret})
}

var c08cfg Config

// compound operations: exercised for the race detector and the invariant
// hook; they take the lock several times by design and are not fed to porcupine.
func (c *lzClient) compound(db *sod.DB, written *sync.Map) string {
	defer func() { recover() }()
	r := c.rng
	check := func(objs []sod.Object, err error) string {
		seen := map[string]bool{}
		for _, o := range objs {
			x, ok := o.(*Rec)
			if !ok || x == nil {
				continue
			}
			if seen[x.UUID()] {
				return "object returned twice by one read"
			}
			seen[x.UUID()] = true
			// every object returned was written with that value at some point
			if _, ok := written.Load(fmt.Sprintf("%s/%d/%d", x.UUID(), x.K, x.I)); !ok {
				if _, ok2 := written.Load(fmt.Sprintf("?/%d/%d", x.K, x.I)); !ok2 {
					return fmt.Sprintf("read returned (K=%d,I=%d) for %s, a value nobody wrote", x.K, x.I, short(x.UUID()))
				}
			}
		}
		return ""
	}
	switch r.Intn(9) {
	case 7:
		// Repair of a healthy collection while others write: nothing to repair (pending
		// asynchronous writes are no divergence)
		if err := db.Repair(&Rec{}); err != nil {
			return "Repair of a healthy collection failed while other calls were running: " + err.Error()
		}
	case 8:
		var vals []int
		db.AssignIndex(&Rec{}, pick(r, []string{"K", "I"}), &vals)
		for i := 1; i < len(vals); i++ {
			if vals[i-1] < vals[i] {
				return fmt.Sprintf("AssignIndex not ordered under concurrency: %v", vals)
			}
		}
	case 0:
		return check(db.Search(&Rec{}, "K", ">=", 0).And("I", "<", 50).Collect())
	case 1:
		return check(db.Search(&Rec{}, "I", "<", 3).Or("K", ">", 2).Collect())
	case 2:
		return check(db.Search(&Rec{}, "Tag", ">=", 0).And("K", "!=", 1).Reverse().Limit(3).Collect())
	case 3:
		o, err := db.Search(&Rec{}, "I", ">=", 0).One()
		if err == nil {
			return check([]sod.Object{o}, nil)
		}
	case 4:
		db.Search(&Rec{}, "I", "=", r.Intn(4)).Delete()
	case 5:
		var recs []*Rec
		for i := 0; i < 3; i++ {
			x := lzRec(100+r.Intn(1000000), r.Intn(4))
			written.Store(fmt.Sprintf("?/%d/%d", x.K, x.I), true)
			recs = append(recs, x)
		}
		db.InsertOrUpdateBulk(sod.ToObjectChan(recs), 2)
	case 6:
		var t []*Rec
		db.Search(&Rec{}, "K", "<", 3).Operation("or", "I", "=", 1).Assign(&t)
	}
	return ""
}

func runC08(k int, rng *Rng) CaseResult {
	cfg := c08Config(rng)
	c08cfg = cfg
	mode := []string{"linearizability", "first-access-storm", "compound"}[k%3]
	clockNewCase(clockScaled)
	installHooks(yieldHooks(rng.U64()))
	w := NewWorld("C08", rng, cfg, caseDir(k, "c08"))
	w.storeWant = false
	defer w.Cleanup()
	if !w.OpenCreate() {
		return w.finish(nil, false, nil)
	}
	// initial content (sequential), part of the history
	setup := &lzClient{id: 0, rng: rng.Fork()}
	nInit := rng.Intn(4)
	var uuids []string
	for i := 0; i < nInit; i++ {
		setup.do(w.db, lzIn{Kind: "ins", K: i, I: rng.Intn(3)}, nil)
		if o := setup.ops[len(setup.ops)-1].Output.(lzOut); o.Class == "nil" {
			uuids = append(uuids, o.UUID)
		}
	}
	if mode == "first-access-storm" {
		// two more collections on the handle, then close, reopen: every client's first call on a
		// collection hits its lazy schema load, while others already use the handle's schemas
		// (Control walks all of them)
		osch := sod.DefaultSchema
		osch.Cache = cfg.Cache
		for _, o := range []sod.Object{&Other{A: 1, B: "b1"}, &Tagged{Name: "n1", Code: "c", Num: 1}} {
			var e error
			o := o
			w.call("Create(other collection)", func() {
				if e = w.db.Create(o, osch); e == nil {
					e = w.db.InsertOrUpdate(o)
				}
			})
			if e != nil {
				w.fail("create-failed", "Create(other collection)", "-", e.Error())
				return w.finish(nil, false, nil)
			}
		}
		w.Reopen(false)
	}
	nClients := 3 + rng.Intn(4)
	nOps := 6 + rng.Intn(5)
	if mode == "first-access-storm" {
		nOps = 2 + rng.Intn(3)
	}
	clients := make([]*lzClient, nClients)
	var uuMu sync.Mutex
	pickUUID := func(r *Rng) string {
		uuMu.Lock()
		defer uuMu.Unlock()
		if len(uuids) == 0 || r.P(0.1) {
			return fmt.Sprintf("%08x-0000-4000-8000-%012x", r.U64()&0xffffffff, r.U64()&0xffffffffffff)
		}
		return uuids[r.Intn(len(uuids))]
	}
	var written sync.Map
	var compoundErr atomic.Value
	var wg sync.WaitGroup
	start := make(chan struct{})
	for ci := range clients {
		clients[ci] = &lzClient{id: ci + 1, rng: rng.Fork()}
		wg.Add(1)
		go func(c *lzClient) {
			defer wg.Done()
			<-start
			r := c.rng
			for i := 0; i < nOps; i++ {
				if mode == "first-access-storm" && r.P(0.45) {
					// whole-handle and other-collection calls: results are not part of the
					// history, the race detector and the panic guard watch them
					func() {
						defer func() { recover() }()
						switch r.Intn(5) {
						case 0, 1:
							w.db.Control()
						case 2:
							w.db.Count(&Other{})
						case 3:
							w.db.Search(&Tagged{}, "Num", ">=", 0).Len()
						default:
							w.db.All(&Other{})
						}
					}()
					continue
				}
				if mode == "compound" && r.P(0.5) {
					if e := c.compound(w.db, &written); e != "" {
						compoundErr.Store(e)
					}
					continue
				}
				var in lzIn
				switch x := r.Intn(100); {
				case x < 22:
					in = lzIn{Kind: "ins", K: r.Intn(6), I: r.Intn(4)}
				case x < 40:
					in = lzIn{Kind: "upd", UUID: pickUUID(r), K: r.Intn(6), I: r.Intn(4)}
				case x < 50:
					in = lzIn{Kind: "del", UUID: pickUUID(r)}
				case x < 62:
					in = lzIn{Kind: "get", UUID: pickUUID(r)}
				case x < 67:
					in = lzIn{Kind: "exist", UUID: pickUUID(r)}
				case x < 72:
					in = lzIn{Kind: "count"}
				case x < 78:
					in = lzIn{Kind: "all"}
				case x < 83:
					in = lzIn{Kind: "slen", Path: pick(r, []string{"K", "I"}), Op: pick(r, []string{"=", "<", ">=", "!="}), V: r.Intn(5)}
				case x < 88:
					in = lzIn{Kind: "aidx", Path: pick(r, []string{"K", "I"})}
				case x < 94:
					a := 6 + r.Intn(1000)
					in = lzIn{Kind: "many", Batch: [][2]int{{a, r.Intn(4)}, {a + 1 + r.Intn(3), r.Intn(4)}}}
					if r.P(0.5) {
						// a later member carries a key the other clients insert, update and delete at
						// this very moment: whatever the batch's checks saw, it is stored whole or not at all
						in.Batch[1][0] = r.Intn(6)
					}
				case x < 96:
					in = lzIn{Kind: "delall"}
				case x < 98:
					in = lzIn{Kind: "flush"}
				default:
					in = lzIn{Kind: "create"}
				}
				if mode == "compound" {
					// remember every value written, for the weak per-object oracle
					switch in.Kind {
					case "ins", "upd":
						written.Store(fmt.Sprintf("?/%d/%d", in.K, in.I), true)
					case "many":
						for _, b := range in.Batch {
							written.Store(fmt.Sprintf("?/%d/%d", b[0], b[1]), true)
						}
					}
				}
				c.do(w.db, in, nil)
				if o := c.ops[len(c.ops)-1].Output.(lzOut); o.Class == "nil" && o.UUID != "" {
					uuMu.Lock()
					uuids = append(uuids, o.UUID)
					uuMu.Unlock()
				}
			}
		}(clients[ci])
	}
	for _, o := range setup.ops {
		in := o.Input.(lzIn)
		written.Store(fmt.Sprintf("?/%d/%d", in.K, in.I), true)
	}
	close(start)
	done := make(chan struct{})
	go func() { wg.Wait(); close(done) }()
	select {
	case <-done:
	case <-time.After(20 * time.Second):
		w.incon = "concurrent workload did not finish in 20 s"
		res := w.finish([]string{mode}, false, nil)
		res.Type, res.Prop, res.Case, res.Verdict = "case", "C08", k, "inconclusive"
		emit(res)
		finishChild()
		exitNow()
	}
	installHooks(stdHooks())
	// ---- oracles ----
	history := append([]porcupine.Operation(nil), setup.ops...)
	for _, c := range clients {
		history = append(history, c.ops...)
	}
	overlaps := 0
	for i := range history {
		for j := i + 1; j < len(history); j++ {
			if history[i].ClientId != history[j].ClientId && history[i].Call <= history[j].Return && history[j].Call <= history[i].Return {
				overlaps++
			}
		}
	}
	stats.Count("operations_recorded", int64(len(history)))
	stats.Count("overlapping_operation_pairs", int64(overlaps))
	for _, o := range history {
		if out := o.Output.(lzOut); strings.HasPrefix(out.Class, "panic:") {
			w.fail("panic", o.Input.(lzIn).Kind, "-", out.Class)
		}
	}
	w.Invariants("index", "pending")
	if e, _ := compoundErr.Load().(string); e != "" && !w.failed() {
		w.fail("compound-read-inconsistent", "Search", "-", e)
	}
	verdict := "skipped"
	if mode != "compound" && !w.failed() {
		// final state as one more (sequential) observation
		fin := &lzClient{id: 0, rng: rng.Fork()}
		fin.do(w.db, lzIn{Kind: "all"}, nil)
		fin.do(w.db, lzIn{Kind: "count"}, nil)
		history = append(history, fin.ops...)
		res, info := porcupine.CheckOperationsVerbose(lzModel, history, 10*time.Second)
		switch res {
		case porcupine.Ok:
			verdict = "ok"
		case porcupine.Unknown:
			verdict = "unknown"
			w.incon = "porcupine timed out"
		default:
			verdict = "illegal"
			var lines []string
			sort.Slice(history, func(i, j int) bool { return history[i].Call < history[j].Call })
			for _, o := range history {
				lines = append(lines, fmt.Sprintf("c%d [%d,%d] %s", o.ClientId, o.Call, o.Return, lzDescribe(o.Input, o.Output)))
			}
			kinds := map[string]bool{}
			for _, o := range history {
				kinds[o.Input.(lzIn).Kind] = true
			}
			_ = info
			w.fail("not-linearizable", mode, lzSuspect(history), "no sequential order of the recorded calls explains their results:\n"+strings.Join(lines, "\n"))
		}
		stats.Count("porcupine_"+verdict, 1)
	}
	if mode == "compound" && !w.failed() {
		var err error
		if cfg.Async != 0 {
			w.call("FlushAllAndCommit", func() { err = w.db.FlushAllAndCommit(&Rec{}) })
		}
		w.call("Control", func() { err = w.db.Control() })
		if err != nil {
			w.fail("control-after-concurrency", "Control", "-", err.Error())
		}
	}
	// interleaving fingerprint: order of calls by client
	sort.Slice(history, func(i, j int) bool { return history[i].Call < history[j].Call })
	var fp []string
	for _, o := range history {
		fp = append(fp, fmt.Sprintf("%d%s", o.ClientId, o.Input.(lzIn).Kind[:1]))
	}
	stats.SetAdd("interleavings", fingerprint(fp...))
	res := w.finish(append([]string{mode}, fp...), overlaps > 0, nil)
	if k < 3 {
		var lines []string
		for i, o := range history {
			if i >= 30 {
				break
			}
			lines = append(lines, fmt.Sprintf("c%d [%d,%d] %s", o.ClientId, o.Call, o.Return, lzDescribe(o.Input, o.Output)))
		}
		res.Sample = map[string]interface{}{"mode": mode, "config": cfg.String(), "clients": nClients, "overlapping_pairs": overlaps, "porcupine": verdict, "history": lines}
	}
	return res
}

// lzSuspect names the operation kinds present in a non-linearizable history
// that are not single-lock operations (closed vocabulary for signatures).
func lzSuspect(h []porcupine.Operation) string {
	for _, o := range h {
		if o.Input.(lzIn).Kind == "delall" {
			return "with-DeleteAll"
		}
	}
	return "-"
}

func exitNow() { os.Exit(0) }
