package main

import (
	"encoding/json"
	"errors"
	"fmt"
	"io/fs"
	"os"
	"path/filepath"
	"regexp"
	"regexp/syntax"
	"runtime/debug"
	"sort"
	"strings"
	"time"

	"github.com/0xrawsec/sod"
)

// ---- error classes ----

func errClass(err error) string {
	var se *syntax.Error
	var ue *json.UnsupportedValueError
	var me *json.MarshalerError
	var ute *json.UnsupportedTypeError
	switch {
	case err == nil:
		return "nil"
	case sod.IsUnique(err):
		return "unique"
	case errors.Is(err, sod.ErrInvalidObject):
		return "invalid"
	case sod.IsNoObjectFound(err):
		return "notfound"
	case errors.Is(err, fs.ErrNotExist):
		return "notexist"
	case errors.Is(err, sod.ErrStructureChanged):
		return "structure"
	case errors.Is(err, sod.ErrFieldDescModif):
		return "descmodif"
	case errors.Is(err, sod.ErrExtensionMismatch):
		return "ext"
	case errors.Is(err, sod.ErrCasting):
		return "casting"
	case errors.Is(err, sod.ErrUnkownField):
		return "unknownfield"
	case errors.Is(err, sod.ErrUnkownSearchOperator):
		return "unknownop"
	case errors.Is(err, sod.ErrUnknownKeyType):
		return "keytype"
	case sod.IsIndexCorrupted(err):
		return "corrupted"
	case errors.Is(err, sod.ErrWrongObjectType):
		return "wrongtype"
	case errors.Is(err, sod.ErrFieldNotIndexed), errors.Is(err, sod.ErrUnindexedField):
		return "unindexed"
	case errors.As(err, &se):
		return "regexp"
	case errors.As(err, &ue), errors.As(err, &me), errors.As(err, &ute):
		return "marshal"
	}
	return "other"
}

// isNotFound: the statement says "a not-found error", not which one (DESIGN 3.8).
func isNotFound(err error) bool {
	return err != nil && (errors.Is(err, fs.ErrNotExist) || sod.IsNoObjectFound(err))
}

var uuidRe = regexp.MustCompile(`^[0-9a-f]{8}-[0-9a-f]{4}-[0-9a-f]{4}-[0-9a-f]{4}-[0-9a-f]{12}$`)

// ---- violations ----

type Violation struct {
	Sig    string   `json:"sig"`
	Clause string   `json:"clause"`
	Api    string   `json:"api"`
	Detail string   `json:"detail"`
	Step   int      `json:"step"`
	Trace  []string `json:"trace,omitempty"`
}

// World is one database directory + handle + reference model.
type World struct {
	prop    string
	rng     *Rng
	cfg     Config
	root    string
	db      *sod.DB
	m       *Model
	seen    map[string]bool // every uuid ever handed out by sod
	trace   []string
	viol    []Violation
	incon   string
	step    int
	rejects int
	accepts int
	// policy
	predict          bool // the model predicts accept/reject (C03, C07, C15, C16); else it follows sod (C01, ...)
	storeWant        bool // the model stores the transformed value the statement demands, else what sod left in the caller's object
	noPanicViolation bool
	handles          []*sod.DB
	absOps           []string
	lastPut          []putRecord
	ownsTransforms   bool
	lastSchema       *sod.Schema
	lastSchemaCfg    string
	noHostile        bool
	fixedQueries     []Query
	maxLive          int
}

func NewWorld(prop string, rng *Rng, cfg Config, root string) *World {
	return &World{prop: prop, rng: rng, cfg: cfg, root: root, m: NewModel(cfg), seen: map[string]bool{}}
}

func (w *World) logf(f string, a ...interface{}) {
	s := fmt.Sprintf(f, a...)
	if len(s) > 400 {
		s = s[:400] + "..."
	}
	w.trace = append(w.trace, fmt.Sprintf("%d: %s", w.step, s))
	traceLine(s)
}

func (w *World) fail(clause, api, site, detail string) {
	sig := fmt.Sprintf("%s|%s|%s|%s|%s", w.prop, clause, api, w.cfg.Class(), site)
	if len(detail) > 1500 {
		detail = detail[:1500] + "..."
	}
	tr := w.trace
	if len(tr) > 60 {
		tr = tr[len(tr)-60:]
	}
	w.viol = append(w.viol, Violation{Sig: sig, Clause: clause, Api: api, Detail: detail, Step: w.step, Trace: append([]string(nil), tr...)})
}

func (w *World) failed() bool { return len(w.viol) > 0 || w.incon != "" }

// call runs an API call under recover (M10).
func (w *World) call(api string, f func()) (panicked bool) {
	stats.SetAdd("api", api)
	stats.Count("api_calls", 1)
	defer func() {
		// a mutex still held when the call returns is leaked (lock monitor on)
		lockLeakCheck(gid(), api)
		for _, lv := range lockmonTakeKind("lock-leak") {
			w.fail(lv.Kind, api, lv.Class+"@"+lv.Site, lv.Detail)
		}
	}()
	defer func() {
		if r := recover(); r != nil {
			panicked = true
			st := string(debug.Stack())
			w.logf("PANIC in %s: %v", api, r)
			if !w.noPanicViolation {
				w.fail("panic", api, panicSite(st), fmt.Sprintf("%v\n%s", r, trimStack(st)))
			}
		}
	}()
	f()
	return
}

func trimStack(st string) string {
	lines := strings.Split(st, "\n")
	var out []string
	for _, l := range lines {
		if strings.Contains(l, "0xrawsec/sod") {
			out = append(out, strings.TrimSpace(l))
		}
		if len(out) > 12 {
			break
		}
	}
	return strings.Join(out, "\n")
}

// panicSite: innermost sod function of a panic stack (function name only).
func panicSite(st string) string {
	for _, l := range strings.Split(st, "\n") {
		if i := strings.Index(l, "github.com/0xrawsec/sod."); i >= 0 && !strings.Contains(l, "verif") {
			s := l[i+len("github.com/0xrawsec/sod."):]
			if j := strings.LastIndex(s, "("); j > 0 {
				s = s[:j]
			}
			s = strings.NewReplacer("(*", "", ")", "").Replace(s)
			return s
		}
	}
	return "-"
}

// ---- handle management ----

func (w *World) Open() {
	sod.LowercaseNames = w.cfg.LowerName
	w.db = sod.Open(w.root)
	w.handles = append(w.handles, w.db)
}

func (w *World) Create() error {
	var err error
	sch := schemaFor(w.cfg, &Rec{})
	w.lastSchema, w.lastSchemaCfg = &sch, w.cfg.String()
	w.call("Create", func() { err = w.db.Create(&Rec{}, sch) })
	return err
}

// CreateSameValue calls Create again with the very Schema value of the last
// Create (an idempotent "ensure collection" call as an application does it).
func (w *World) CreateSameValue() error {
	if w.lastSchema == nil || w.lastSchemaCfg != w.cfg.String() {
		return w.Create()
	}
	var err error
	w.call("Create", func() { err = w.db.Create(&Rec{}, *w.lastSchema) })
	return err
}

func (w *World) OpenCreate() bool {
	w.Open()
	if err := w.Create(); err != nil {
		w.fail("create-failed", "Create", "-", err.Error())
		return false
	}
	clockSettle()
	return true
}

func (w *World) collDir() string {
	name := "main.Rec"
	if w.cfg.LowerName {
		name = goldenLowerName("main.Rec")
	}
	return filepath.Join(w.root, name)
}

// Reopen closes the handle and opens a new one (lazy load, or explicit Create).
func (w *World) Reopen(withCreate bool) {
	w.logf("close+reopen create=%v", withCreate)
	var err error
	w.call("Close", func() { err = w.db.Close() })
	if err != nil {
		w.fail("close-failed", "Close", "-", err.Error())
		return
	}
	clockSettle()
	// the closed handle must not be closed again at cleanup: it would commit
	// concurrently with the new handle's flusher (two handles, one directory)
	for i, h := range w.handles {
		if h == w.db {
			w.handles = append(w.handles[:i], w.handles[i+1:]...)
			break
		}
	}
	w.Open()
	if withCreate {
		if err := w.Create(); err != nil {
			w.fail("create-failed", "Create(again)", "-", err.Error())
		}
	}
	clockSettle()
}

// Abandon drops the handle without Close (sync mode only) and opens a new one.
func (w *World) Abandon() {
	w.logf("abandon handle + open new")
	w.Open()
}

func (w *World) CloseAll() {
	for _, h := range w.handles {
		// cleanup must never hang the child: a handle whose lock was leaked by
		// the code under test is abandoned
		done := make(chan struct{})
		go func(h *sod.DB) {
			defer close(done)
			defer func() { recover() }()
			h.Close()
		}(h)
		select {
		case <-done:
		case <-time.After(3 * time.Second):
			stats.Count("handles_abandoned_at_cleanup", 1)
		}
	}
	w.handles = nil
	clockReleaseAll()
}

func (w *World) Cleanup() {
	w.CloseAll()
	os.RemoveAll(w.root)
}

// ---- writes ----

type putRecord struct {
	X     *Rec
	Want  *Rec
	Class string // actual outcome class
	Exp   string // expected class
	Api   string
	Batch bool
}

type writeOutcome struct {
	Err   error
	Class string
	Panic bool
}

// expectWrite computes what the statement demands for a single write of x
// (already carrying its uuid when it is an update).
func (w *World) expectWrite(x *Rec) (want *Rec, class string, detail string) {
	want = w.cfg.applyTransforms(x)
	if err := validRule(want); err != nil {
		return want, "invalid", err.Error()
	}
	if p, c := w.m.uniqueConflict(want, x.UUID()); c {
		return want, "unique", p
	}
	return want, "nil", ""
}

func recBrief(x *Rec) string {
	n := "nil"
	if x.N != nil {
		n = fmt.Sprintf("{A:%d S:%q}", x.N.A, x.N.S)
	}
	return fmt.Sprintf("tag=%d uuid=%.8s I=%d I64=%d U8=%d U64=%d F64=%v S=%q T=%d Up=%q Lo=%q K=%d KS=%q N=%s X=%d Tr=%q Chk=%d Bad=%d",
		x.Tag, x.UUID(), x.I, x.I64, x.U8, x.U64, x.F64, x.S, x.T.UTC().UnixNano(), x.Up, x.Lo, x.K, x.KS, n, x.X, x.Tr, x.Chk, x.Bad)
}

// Put performs InsertOrUpdate(x) and maintains the model. kind is "new" or "update".
func (w *World) Put(x *Rec, kind string) writeOutcome {
	before := x.UUID()
	want, expClass, expDetail := w.expectWrite(x)
	w.logf("InsertOrUpdate(%s) %s expect=%s", kind, recBrief(x), expClass)
	var out writeOutcome
	out.Panic = w.call("InsertOrUpdate", func() { out.Err = w.db.InsertOrUpdate(x) })
	out.Class = errClass(out.Err)
	if out.Panic {
		return out
	}
	w.logf(" -> %s uuid=%.8s", out.Class, x.UUID())
	api := "InsertOrUpdate(" + kind + ")"
	w.lastPut = append(w.lastPut, putRecord{X: x, Want: want, Class: out.Class, Exp: expClass, Api: api})
	if w.transformsForeign(x, want, out.Class) {
		w.hostileScramble(x)
		return out
	}
	if w.predict && out.Class != expClass {
		w.fail("accept-mismatch:want-"+expClass+"-got-"+out.Class, api, "-",
			fmt.Sprintf("expected %s (%s), got %s: %v; object %s", expClass, expDetail, out.Class, out.Err, recBrief(x)))
		return out
	}
	if out.Err == nil {
		w.accepts++
		u := x.UUID()
		if before != "" && u != before {
			w.fail("uuid-changed", api, "-", fmt.Sprintf("%s -> %s", before, u))
		}
		if before == "" {
			if !uuidRe.MatchString(strings.ToLower(u)) {
				w.fail("uuid-malformed", api, "-", fmt.Sprintf("%q", u))
			} else if w.seen[u] {
				w.fail("uuid-reused", api, "-", u)
			}
		}
		w.seen[u] = true
		if w.storeWant {
			want.Initialize(u)
			w.m.Put(want)
		} else {
			w.m.Put(x)
		}
	} else {
		w.rejects++
	}
	// hostile caller: whatever happens to the caller's object after the call
	// returned must not matter (the model keeps its own copy)
	w.hostileScramble(x)
	return out
}

// hostileScramble overwrites every exported field reachable from a caller's
// object after the API call that received it has returned.
func (w *World) hostileScramble(x *Rec) {
	if w.noHostile || x == nil {
		return
	}
	u := x.UUID()
	scramble(x)
	x.Initialize(u)
	stats.Count("caller_objects_scrambled", 1)
}

// Insert a fresh object.
func (w *World) Insert(x *Rec) writeOutcome { return w.Put(x, "new") }

// callerCopy returns a caller-side object holding the model's value of uuid.
func (w *World) callerCopy(u string) *Rec {
	return cloneRec(w.m.objs[u])
}

func (w *World) Delete(u string) {
	x := &Rec{}
	x.Initialize(u)
	_, stored := w.m.objs[u]
	w.logf("Delete(%.8s) stored=%v", u, stored)
	var err error
	if w.call("Delete", func() { err = w.db.Delete(x) }) {
		return
	}
	w.logf(" -> %s", errClass(err))
	if err != nil && !(!stored && isNotFound(err)) {
		w.fail("delete-error", "Delete", "-", fmt.Sprintf("stored=%v err=%v", stored, err))
		return
	}
	w.m.Delete(u)
}

func (w *World) DeleteAll() {
	w.logf("DeleteAll")
	var err error
	if w.call("DeleteAll", func() { err = w.db.DeleteAll(&Rec{}) }) {
		return
	}
	if err != nil {
		w.fail("delete-error", "DeleteAll", "-", err.Error())
		return
	}
	w.m.Clear()
}

// SearchDelete deletes through an evaluable search.
func (w *World) SearchDelete(q Query) {
	set, ok := w.m.Eval(q)
	w.logf("Search(%s).Delete() expect=%d evaluable=%v", q, len(set), ok)
	if !ok {
		return
	}
	var err error
	if w.call("Search.Delete", func() {
		s := w.db.Search(&Rec{}, q.Path, q.Op, q.Probe)
		if err = s.Err(); err != nil {
			return
		}
		err = s.Delete()
	}) {
		return
	}
	if err != nil {
		w.fail("search-delete-error", "Search.Delete", "-", fmt.Sprintf("%s: %v", q, err))
		return
	}
	for _, u := range w.m.Live() { // deterministic order
		if set[u] {
			w.m.Delete(u)
		}
	}
}

// randomUUID-like absent id that sod never handed out.
func (w *World) absentUUID() string {
	for {
		u := fmt.Sprintf("%08x-%04x-4%03x-8%03x-%012x", w.rng.U64()&0xffffffff, w.rng.U64()&0xffff, w.rng.U64()&0xfff, w.rng.U64()&0xfff, w.rng.U64()&0xffffffffffff)
		if !w.seen[u] {
			// uuids are hexadecimal in any letter case
			switch w.rng.Intn(8) {
			case 0:
				u = strings.ToUpper(u)
			case 1:
				u = strings.ToUpper(u[:8]) + u[8:]
			}
			return u
		}
	}
}

// ---- helpers over results ----

func objsToRecs(objs []sod.Object) ([]*Rec, bool) {
	out := make([]*Rec, 0, len(objs))
	for _, o := range objs {
		r, ok := o.(*Rec)
		if !ok || r == nil {
			return nil, false
		}
		out = append(out, r)
	}
	return out, true
}

func uuidsOf(rs []*Rec) []string {
	out := make([]string, 0, len(rs))
	for _, r := range rs {
		out = append(out, r.UUID())
	}
	return out
}

func sortedCopy(s []string) []string {
	c := append([]string(nil), s...)
	sort.Strings(c)
	return c
}

func short(u string) string {
	if len(u) > 8 {
		return u[:8]
	}
	return u
}

func shortList(us []string) string {
	var b []string
	for _, u := range us {
		b = append(b, short(u))
	}
	return "[" + strings.Join(b, " ") + "]"
}

// transformsForeign: outside the checks that own the Transform / case
// canonicalisation clauses (C15, C16), an object that sod did not transform the
// way the statement says makes this check's model and predictions unreliable:
// the case becomes inconclusive instead of accusing the property under test.
func (w *World) transformsForeign(x, want *Rec, class string) bool {
	if w.ownsTransforms || (class != "nil" && class != "unique" && class != "invalid") {
		return false
	}
	if canonJSON(x) != canonJSON(want) {
		w.incon = "foreign divergence: the object was not transformed as the statement of C15/C16 says; this check's model cannot judge the rest of the history"
		return true
	}
	return false
}
