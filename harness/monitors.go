package main

import (
	"bytes"
	"fmt"
	"os"
	"runtime"
	"strconv"
	"strings"
	"sync"
	"time"
)

// ---- harness-side view of the shim (kept free of sod types so that a plain
// build, DESIGN 3.1 level C, still compiles) ----

type FSEvent struct {
	Seq      uint64
	Op       string
	Phase    string
	Path     string
	Path2    string
	Flags    int
	N        int
	Mutating bool
	Err      error
}

type ShortWrite struct {
	N   int
	Err error
}

func (s *ShortWrite) Error() string { return "short write" }

type Hooks struct {
	FS          func(ev *FSEvent) error
	SplitWrites bool
	Sleep       func(d time.Duration)
	Lock        func(op string, mu interface{})
	Go          func(name string, ev string)
}

// gid returns the current goroutine id (parsed from runtime.Stack).
func gid() int64 {
	var buf [64]byte
	n := runtime.Stack(buf[:], false)
	b := buf[:n]
	b = bytes.TrimPrefix(b, []byte("goroutine "))
	if i := bytes.IndexByte(b, ' '); i > 0 {
		v, _ := strconv.ParseInt(string(b[:i]), 10, 64)
		return v
	}
	return -1
}

// sodSite returns the innermost n sod function names of the calling stack
// ("saveSchema<-commit<-InsertOrUpdate"), skipping shim functions.
func sodSite(n int) string {
	pcs := make([]uintptr, 40)
	k := runtime.Callers(2, pcs)
	frames := runtime.CallersFrames(pcs[:k])
	var out []string
	for {
		fr, more := frames.Next()
		fn := fr.Function
		if i := strings.Index(fn, "github.com/0xrawsec/sod."); i >= 0 {
			s := fn[i+len("github.com/0xrawsec/sod."):]
			isShim := strings.Contains(strings.ToLower(s), "verif")
			if j := strings.Index(s, ")."); j >= 0 && strings.HasPrefix(s, "(") {
				s = s[j+2:]
			}
			if !isShim {
				// strip closure suffixes
				if j := strings.Index(s, ".func"); j > 0 {
					s = s[:j]
				}
				if len(out) == 0 || out[len(out)-1] != s {
					out = append(out, s)
				}
				if len(out) == n {
					break
				}
			}
		}
		if !more {
			break
		}
	}
	if len(out) == 0 {
		return "-"
	}
	return strings.Join(out, "<-")
}

// ---- virtual clock (M5) ----

const (
	clockReal    = 0
	clockVirtual = 1
	clockScaled  = 2
)

var clock = struct {
	mu        sync.Mutex
	mode      int
	gen       int
	gens      map[int64]int // goroutine id -> generation
	live      int           // package goroutines of the current generation that sleep (flushers)
	parked    []chan struct{}
	ticks     int
	vtime     time.Duration
	lastD     time.Duration
	sleeps    int64
	stuck     bool
	scale     int
	flushGo   int64
	spawnsAny int64
	spawnGens []int
	exits     int64 // flushers of the current generation that returned
	spawns    int64 // flushers spawned in the current generation
}{gens: map[int64]int{}, scale: 50}

const flusherFunc = "startAsyncWritesRoutine"

func clockGo(name, ev string) {
	if debugClock {
		fmt.Fprintf(os.Stderr, "GO g%d %s %s live=%d parked=%d gen=%d\n", gid(), name, ev, clock.live, len(clock.parked), clock.gen)
	}
	if ev == "spawn" {
		clock.mu.Lock()
		clock.spawnsAny++
		clock.mu.Unlock()
	}
	if name != flusherFunc {
		return
	}
	clock.mu.Lock()
	defer clock.mu.Unlock()
	switch ev {
	case "spawn":
		clock.live++
		clock.spawns++
		clock.flushGo++
		clock.spawnGens = append(clock.spawnGens, clock.gen)
	case "enter":
		// the goroutine belongs to the generation in which it was spawned,
		// even when it only starts running after the case has ended
		g := clock.gen
		if len(clock.spawnGens) > 0 {
			g = clock.spawnGens[0]
			clock.spawnGens = clock.spawnGens[1:]
		}
		clock.gens[gid()] = g
	case "exit":
		g := gid()
		if clock.gens[g] == clock.gen {
			clock.live--
			clock.exits++
		}
		delete(clock.gens, g)
	}
}

func clockSleep(d time.Duration) {
	g := gid()
	clock.mu.Lock()
	gen, known := clock.gens[g]
	mode := clock.mode
	if known && gen != clock.gen {
		// a flusher of an earlier case: never let it run again
		clock.mu.Unlock()
		select {}
	}
	clock.sleeps++
	clock.lastD = d
	switch mode {
	case clockVirtual:
		if !known {
			// a sleeper that is not a tracked flusher: do not block it
			clock.mu.Unlock()
			return
		}
		ch := make(chan struct{})
		clock.parked = append(clock.parked, ch)
		clock.mu.Unlock()
		<-ch
		// generation may have changed while parked
		clock.mu.Lock()
		stale := clock.gens[g] != clock.gen
		clock.mu.Unlock()
		if stale {
			select {}
		}
	case clockScaled:
		sc := clock.scale
		clock.mu.Unlock()
		time.Sleep(d / time.Duration(sc))
	default:
		clock.mu.Unlock()
		time.Sleep(d)
	}
}

// clockNewCase starts a new generation: flushers of earlier cases stay parked
// forever (their handles were closed or abandoned).
func clockNewCase(mode int) {
	clock.mu.Lock()
	clock.gen++
	clock.mode = mode
	clock.live = 0
	clock.parked = nil
	clock.ticks = 0
	clock.vtime = 0
	clock.stuck = false
	clock.spawnsAny = 0
	clock.exits, clock.spawns = 0, 0
	clock.mu.Unlock()
}

// clockSettle waits until every live flusher of this generation is parked in
// Sleep (virtual mode only). A wall-clock watchdog only marks the case
// inconclusive.
func clockSettle() {
	clock.mu.Lock()
	mode := clock.mode
	clock.mu.Unlock()
	if mode != clockVirtual || !shimAvailable {
		return
	}
	deadline := time.Now().Add(20 * time.Second)
	for i := 0; ; i++ {
		clock.mu.Lock()
		ok := len(clock.parked) >= clock.live
		if ok && debugClock {
			fmt.Fprintf(os.Stderr, "SETTLE ok parked=%d live=%d\n", len(clock.parked), clock.live)
		}
		clock.mu.Unlock()
		if ok {
			return
		}
		if i < 100 {
			runtime.Gosched()
		} else {
			time.Sleep(20 * time.Microsecond)
		}
		if i%1000 == 999 && time.Now().After(deadline) {
			clock.mu.Lock()
			clock.stuck = true
			clock.mu.Unlock()
			return
		}
	}
}

// clockTick lets every parked flusher run one iteration and waits until it is
// parked again. Returns the virtual duration that elapsed.
func clockTick() time.Duration {
	clockSettle()
	clock.mu.Lock()
	ps := clock.parked
	clock.parked = nil
	d := clock.lastD
	if len(ps) > 0 {
		clock.ticks++
		clock.vtime += d
	}
	clock.mu.Unlock()
	for _, ch := range ps {
		close(ch)
	}
	clockSettle()
	stats.Count("flusher_ticks", int64(len(ps)))
	return d
}

func clockLive() int {
	clock.mu.Lock()
	defer clock.mu.Unlock()
	return clock.live
}

func clockStuck() bool {
	clock.mu.Lock()
	defer clock.mu.Unlock()
	return clock.stuck
}

// clockReleaseAll ends the generation (called after the handles were closed).
func clockReleaseAll() {
	// let goroutines that were spawned but have not started yet start
	for i := 0; i < 20000; i++ {
		clock.mu.Lock()
		n := len(clock.spawnGens)
		clock.mu.Unlock()
		if n == 0 {
			break
		}
		if i < 100 {
			runtime.Gosched()
		} else {
			time.Sleep(50 * time.Microsecond)
		}
	}
	clock.mu.Lock()
	clock.gen++
	ps := clock.parked
	clock.parked = nil
	clock.live = 0
	clock.mu.Unlock()
	for _, ch := range ps {
		close(ch) // they notice the stale generation and block forever
	}
}

func clockSpawnsAny() int64 {
	clock.mu.Lock()
	defer clock.mu.Unlock()
	return clock.spawnsAny
}

// clockFlusherCensus: flushers spawned / returned in the current generation.
func clockFlusherCensus() (spawned, exited int64) {
	clock.mu.Lock()
	defer clock.mu.Unlock()
	return clock.spawns, clock.exits
}

var debugClock = os.Getenv("VERIF_DEBUG_FS") != ""
