package main

import (
	"crypto/sha256"
	"encoding/hex"
	"errors"
	"fmt"
	"io/fs"
	"os"
	"path/filepath"
	"sort"
	"time"

	"github.com/0xrawsec/sod"
)

// C17 — schema guard (DESIGN 4/C17).

const c17ShapePairs = 12

func init() {
	drivers["C17"] = &driver{cases: func(t string) int {
		if t == "thorough" {
			return c17ShapePairs*6 + 300 + 4000
		}
		return c17ShapePairs*6 + 60 + 200
	}, run: runC17}
}

// treeHash hashes names and contents of every file below root.
func treeHash(root string) (string, map[string]string) {
	files := map[string]string{}
	filepath.WalkDir(root, func(p string, d fs.DirEntry, err error) error {
		if err != nil {
			return nil
		}
		rel, _ := filepath.Rel(root, p)
		if d.IsDir() {
			files[rel+"/"] = "dir"
			return nil
		}
		b, err := os.ReadFile(p)
		if err != nil {
			files[rel] = "unreadable"
			return nil
		}
		h := sha256.Sum256(b)
		files[rel] = hex.EncodeToString(h[:8])
		return nil
	})
	names := make([]string, 0, len(files))
	for n := range files {
		names = append(names, n)
	}
	sort.Strings(names)
	h := sha256.New()
	for _, n := range names {
		h.Write([]byte(n + "=" + files[n] + "\n"))
	}
	return hex.EncodeToString(h.Sum(nil)[:8]), files
}

func diffTree(a, b map[string]string) string {
	for n, h := range a {
		if b[n] != h {
			if _, ok := b[n]; !ok {
				return "deleted: " + n
			}
			return "modified: " + n
		}
	}
	for n := range b {
		if _, ok := a[n]; !ok {
			return "created: " + n
		}
	}
	return ""
}

// shapePair returns factories for the stored shape and the current shape. Both
// are function-local types called Shape, so they have the same type name (the
// way the repository's own test-suite redefines a struct).
type shapeFactory struct {
	name string
	v1   func(i int) sod.Object
	v2   func(uuid string) sod.Object
}

type c17EP struct {
	Host string
	Port int
}

type c17EP2 struct {
	Host string
	Port string
}

func shapePairs() []shapeFactory {
	v1 := func(i int) sod.Object {
		type Shape struct {
			sod.Item
			A int `sod:"index"`
			B string
			N struct {
				C int `sod:"index"`
				D string
			}
		}
		s := &Shape{A: i, B: fmt.Sprint("b", i)}
		s.N.C, s.N.D = i*2, "d"
		return s
	}
	mk := func(name string, f func(uuid string) sod.Object) shapeFactory {
		return shapeFactory{name: name, v1: v1, v2: f}
	}
	fieldless := func(i int) sod.Object {
		type Shape struct {
			sod.Item
			hidden int
		}
		return &Shape{hidden: i}
	}
	return []shapeFactory{
		// stored shape without any describable field (only the embedded Item
		// and an unexported field), current shape with a field
		{name: "fieldless-to-field", v1: fieldless, v2: func(u string) sod.Object {
			type Shape struct {
				sod.Item
				hidden int
				A      int `sod:"index"`
			}
			s := &Shape{A: 1}
			s.Initialize(u)
			return s
		}},
		mk("field-added", func(u string) sod.Object {
			type Shape struct {
				sod.Item
				A int `sod:"index"`
				B string
				Z float64
				N struct {
					C int `sod:"index"`
					D string
				}
			}
			s := &Shape{A: 1}
			s.Initialize(u)
			return s
		}),
		mk("field-removed", func(u string) sod.Object {
			type Shape struct {
				sod.Item
				A int `sod:"index"`
				N struct {
					C int `sod:"index"`
					D string
				}
			}
			s := &Shape{A: 1}
			s.Initialize(u)
			return s
		}),
		mk("field-retyped", func(u string) sod.Object {
			type Shape struct {
				sod.Item
				A int64 `sod:"index"`
				B string
				N struct {
					C int `sod:"index"`
					D string
				}
			}
			s := &Shape{A: 1}
			s.Initialize(u)
			return s
		}),
		mk("field-retyped-kind", func(u string) sod.Object {
			type Shape struct {
				sod.Item
				A string `sod:"index"`
				B string
				N struct {
					C int `sod:"index"`
					D string
				}
			}
			s := &Shape{A: "1"}
			s.Initialize(u)
			return s
		}),
		mk("nested-added", func(u string) sod.Object {
			type Shape struct {
				sod.Item
				A int `sod:"index"`
				B string
				N struct {
					C int `sod:"index"`
					D string
					E int
				}
			}
			s := &Shape{A: 1}
			s.Initialize(u)
			return s
		}),
		mk("nested-removed", func(u string) sod.Object {
			type Shape struct {
				sod.Item
				A int `sod:"index"`
				B string
				N struct {
					C int `sod:"index"`
				}
			}
			s := &Shape{A: 1}
			s.Initialize(u)
			return s
		}),
		mk("nested-retyped", func(u string) sod.Object {
			type Shape struct {
				sod.Item
				A int `sod:"index"`
				B string
				N struct {
					C uint `sod:"index"`
					D string
				}
			}
			s := &Shape{A: 1}
			s.Initialize(u)
			return s
		}),
		// two fields of one struct type: the second one must be described (and guarded) as well
		{name: "twin-struct-second-added", v1: func(i int) sod.Object {
			type Shape struct {
				sod.Item
				Name string `sod:"index"`
				Src  c17EP
			}
			return &Shape{Name: fmt.Sprint("n", i), Src: c17EP{"h", i}}
		}, v2: func(u string) sod.Object {
			type Shape struct {
				sod.Item
				Name     string `sod:"index"`
				Src, Dst c17EP
			}
			s := &Shape{Name: "n"}
			s.Initialize(u)
			return s
		}},
		{name: "twin-struct-second-removed", v1: func(i int) sod.Object {
			type Shape struct {
				sod.Item
				Name     string `sod:"index"`
				Src, Dst c17EP
			}
			return &Shape{Name: fmt.Sprint("n", i), Src: c17EP{"h", i}, Dst: c17EP{"g", i}}
		}, v2: func(u string) sod.Object {
			type Shape struct {
				sod.Item
				Name string `sod:"index"`
				Src  c17EP
			}
			s := &Shape{Name: "n"}
			s.Initialize(u)
			return s
		}},
		{name: "twin-struct-second-retyped", v1: func(i int) sod.Object {
			type Shape struct {
				sod.Item
				Name string `sod:"index"`
				Src  c17EP
				Dst  *c17EP
			}
			return &Shape{Name: fmt.Sprint("n", i), Src: c17EP{"h", i}, Dst: &c17EP{"g", i}}
		}, v2: func(u string) sod.Object {
			type Shape struct {
				sod.Item
				Name string `sod:"index"`
				Src  c17EP
				Dst  *c17EP2
			}
			s := &Shape{Name: "n"}
			s.Initialize(u)
			return s
		}},
		mk("field-renamed", func(u string) sod.Object {
			type Shape struct {
				sod.Item
				A  int `sod:"index"`
				B2 string
				N  struct {
					C int `sod:"index"`
					D string
				}
			}
			s := &Shape{A: 1}
			s.Initialize(u)
			return s
		}),
	}
}

func runC17(k int, rng *Rng) CaseResult {
	switch {
	case k < c17ShapePairs*6:
		return runC17Shapes(k, rng)
	case (tier != "thorough" && k < c17ShapePairs*6+60) || (tier == "thorough" && k < c17ShapePairs*6+300):
		return runC17Settings(k, rng)
	}
	return runC17Switch(k, rng)
}

// ---- part 1: changed struct shape ----

func runC17Shapes(k int, rng *Rng) CaseResult {
	pair := shapePairs()[k%c17ShapePairs]
	variant := k / c17ShapePairs // storage configuration of the stored collection
	sch := sod.DefaultSchema
	cfgName := "default"
	switch variant {
	case 1:
		sch.Compress, cfgName = true, "gz"
	case 2:
		sch.Cache, cfgName = true, "cache"
	case 3:
		sch.Asynchrone(2, 100*time.Millisecond)
		cfgName = "async"
	case 4:
		sch.Extension, cfgName = ".obj", "ext"
	case 5:
		cfgName = "empty-collection"
	}
	clockNewCase(clockVirtual)
	installHooks(stdHooks())
	sod.LowercaseNames = false
	root := caseDir(k, "c17s")
	defer os.RemoveAll(root)
	w := NewWorld("C17", rng, Config{Ext: sch.Extension}, root)
	defer w.Cleanup()
	db := sod.Open(root)
	w.handles = append(w.handles, db)
	var err error
	if err = db.Create(pair.v1(0), sch); err != nil {
		w.fail("create-failed", "Create", "-", err.Error())
		return w.finish(nil, false, nil)
	}
	var uuids []string
	n := 4
	if variant == 5 {
		n = 0
	}
	for i := 0; i < n; i++ {
		o := pair.v1(i)
		if err = db.InsertOrUpdate(o); err != nil {
			w.fail("insert-error", "InsertOrUpdate", "-", err.Error())
			return w.finish(nil, false, nil)
		}
		uuids = append(uuids, o.UUID())
	}
	if err = db.Close(); err != nil {
		w.fail("close-failed", "Close", "-", err.Error())
		return w.finish(nil, false, nil)
	}
	clockReleaseAll()
	clockNewCase(clockVirtual)
	before, beforeFiles := treeHash(root)
	// new handle, current shape
	db2 := sod.Open(root)
	w.db = db2
	w.handles = append(w.handles, db2)
	u := ""
	if len(uuids) > 0 {
		u = uuids[0]
	} else {
		u = w.absentUUID()
	}
	type op struct {
		name string
		f    func() error
	}
	ops := []op{
		{"Count", func() error { _, e := db2.Count(pair.v2("")); return e }},
		{"Get", func() error { _, e := db2.Get(pair.v2(u)); return e }},
		{"GetByUUID", func() error { _, e := db2.GetByUUID(pair.v2(""), u); return e }},
		{"All", func() error { _, e := db2.All(pair.v2("")); return e }},
		{"Search", func() error {
			s := db2.Search(pair.v2(""), "N.C", ">=", 0)
			if s.Err() != nil {
				return s.Err()
			}
			_, e := s.Collect()
			return e
		}},
		{"Exist", func() error { _, e := db2.Exist(pair.v2(u)); return e }},
		{"InsertOrUpdate", func() error { return db2.InsertOrUpdate(pair.v2("")) }},
		{"InsertOrUpdate(update)", func() error { return db2.InsertOrUpdate(pair.v2(u)) }},
		{"InsertOrUpdateMany", func() error { _, e := db2.InsertOrUpdateMany(pair.v2(""), pair.v2("")); return e }},
		{"Delete", func() error { return db2.Delete(pair.v2(u)) }},
		{"DeleteAll", func() error { return db2.DeleteAll(pair.v2("")) }},
		{"Create", func() error { return db2.Create(pair.v2(""), sch) }},
		{"Create(default)", func() error { return db2.Create(pair.v2(""), sod.DefaultSchema) }},
		{"Repair", func() error { return db2.Repair(pair.v2("")) }},
		{"Schema", func() error { _, e := db2.Schema(pair.v2("")); return e }},
		{"AssignIndex", func() error { var t []int; return db2.AssignIndex(pair.v2(""), "N.C", &t) }},
		{"FlushAllAndCommit", func() error { return db2.FlushAllAndCommit(pair.v2("")) }},
		{"Commit", func() error { return db2.Commit(pair.v2("")) }},
	}
	// PRNG order, so that no operation is always first on the fresh handle
	for i := len(ops) - 1; i > 0; i-- {
		j := rng.Intn(i + 1)
		ops[i], ops[j] = ops[j], ops[i]
	}
	for _, o := range ops {
		w.step++
		var e error
		w.logf("%s with shape %s", o.name, pair.name)
		if w.call(o.name, func() { e = o.f() }) {
			break
		}
		if !errors.Is(e, sod.ErrStructureChanged) {
			w.fail("shape-change-not-refused", o.name, pair.name, fmt.Sprintf("stored shape differs (%s, %s) but %s returned %v", pair.name, cfgName, o.name, e))
			break
		}
		if h, files := treeHash(root); h != before {
			w.fail("refused-operation-changed-files", o.name, pair.name, diffTree(beforeFiles, files))
			break
		}
	}
	w.call("Close", func() { db2.Close() })
	clockTick()
	if h, files := treeHash(root); !w.failed() && h != before {
		w.fail("refused-operation-changed-files", "Close", pair.name, diffTree(beforeFiles, files))
	}
	res := w.finish([]string{pair.name, cfgName}, true, nil)
	if variant == 0 {
		res.Sample = map[string]interface{}{"stored_shape_vs_current": pair.name, "stored_config": cfgName, "operations": len(ops)}
	}
	return res
}

// ---- part 2: re-creation with other constraints / extension; idempotent Create ----

func runC17Settings(k int, rng *Rng) CaseResult {
	cfg := genConfig(rng, GenOpts{ForceSync: rng.P(0.6)})
	clockNewCase(clockVirtual)
	installHooks(stdHooks())
	w := NewWorld("C17", rng, cfg, caseDir(k, "c17c"))
	w.storeWant = false
	defer w.Cleanup()
	// the descriptors the guard is built on name every describable field of the struct (a field
	// without descriptor can change shape unnoticed)
	fds := sod.FieldDescriptors(&Rec{})
	for _, f := range recFields {
		if _, ok := fds[f.Path]; f.Desc && !ok {
			w.fail("descriptors-incomplete", "FieldDescriptors", "-", fmt.Sprintf("field %s (%s) of the struct has no descriptor: the guard cannot see it change", f.Path, f.Kind))
			return w.finish(nil, true, nil)
		}
	}
	if !w.OpenCreate() {
		return w.finish(nil, false, nil)
	}
	w.Run(HistOpts{Steps: 3 + rng.Intn(10), MaxObjs: 10, Rec: RecOpts{ValidOnly: true, Simple: true}, Mix: Mix{Ins: 60, Upd: 25, Del: 10, Many: 5}})
	if w.failed() {
		return w.finish(w.absOps, false, nil)
	}
	if rng.Bool() {
		w.Reopen(false)
	}
	// what the guard compares: the stored descriptors name every describable field of the struct
	// (a field without descriptor can change shape unnoticed)
	var sch *sod.Schema
	var serr error
	w.call("Schema", func() { sch, serr = w.db.Schema(&Rec{}) })
	if serr == nil && sch != nil && !w.failed() {
		for _, f := range recFields {
			if _, ok := sch.Fields[f.Path]; f.Desc && !ok {
				w.fail("descriptors-incomplete", "Schema", "-", fmt.Sprintf("field %s (%s) of the stored struct has no descriptor: the guard cannot see it change", f.Path, f.Kind))
				break
			}
		}
		stats.Count("descriptor_completeness_checks", 1)
	}
	// asynchronous mode: writes stay pending (the flusher is parked on the
	// virtual clock and is not ticked): a refused Create must not flush them
	if cfg.Async != 0 {
		w.Step(HistOpts{MaxObjs: 12, Rec: RecOpts{ValidOnly: true, Simple: true}, Mix: Mix{Ins: 70, Upd: 30}})
	}
	// the flusher of a lazily loaded collection is started by the second
	// access and runs one iteration before it parks: let that happen now, so
	// that it is not mistaken for an effect of the refused calls
	w.call("Count", func() { w.db.Count(&Rec{}) })
	clockSettle()
	before, beforeFiles := treeHash(w.root)
	// (a) other constraints
	for i := 0; i < 3 && !w.failed(); i++ {
		other := cloneCfg(cfg)
		p := pick(rng, []string{"I", "S", "K", "KS", "N.A", "Up", "Emb.Y", "T"})
		c := other.Fields[p]
		sel := rng.Intn(4)
		if sel == 3 && !c.Unique {
			sel = 0
		}
		switch sel {
		case 3: // same meaning, other declaration: unique with / without the index flag
			c.UniqueOnly = !c.UniqueOnly
		case 0:
			c.Index = !c.Index
			if !c.Index {
				c.Unique = false
			}
		case 1:
			c.Unique = !c.Unique
			c.Index = c.Index || c.Unique
		default:
			if recFieldByPath[p].Kind == "string" {
				c.Upper = !c.Upper
			} else {
				c.Index = !c.Index
				if !c.Index {
					c.Unique = false
				}
			}
		}
		if c == cfg.Fields[p] {
			continue
		}
		other.Fields[p] = c
		var e error
		w.step++
		w.logf("Create with other constraints on %s", p)
		w.call("Create(constraints)", func() { e = w.db.Create(&Rec{}, schemaFor(other, &Rec{})) })
		if !errors.Is(e, sod.ErrFieldDescModif) {
			w.fail("constraint-change-not-refused", "Create", "-", fmt.Sprintf("path %s %+v -> %+v: %v", p, cfg.Fields[p], c, e))
		}
	}
	// (b) other extension
	if !w.failed() {
		other := cloneCfg(cfg)
		other.Ext = map[string]string{".json": ".obj", ".obj": ".json", ".v1.dat": ".json", ".gz": ".json", ".data.gz": ".gz"}[cfg.Ext]
		var e error
		w.call("Create(extension)", func() { e = w.db.Create(&Rec{}, schemaFor(other, &Rec{})) })
		if !errors.Is(e, sod.ErrExtensionMismatch) {
			w.fail("extension-change-not-refused", "Create", "-", fmt.Sprintf("%s -> %s: %v", cfg.Ext, other.Ext, e))
		}
	}
	if h, files := treeHash(w.root); !w.failed() && h != before {
		w.fail("refused-operation-changed-files", "Create", cfgMode(cfg), diffTree(beforeFiles, files))
	}
	// (b') the first Create of another collection, with descriptors taken from a different struct:
	// refused, nothing left behind, and the collection can be created properly afterwards
	if !w.failed() {
		var e error
		wrong := sod.NewCustomSchema(sod.FieldDescriptors(&Tagged{}), cfg.Ext)
		w.call("Create(new collection, foreign descriptors)", func() { e = w.db.Create(&Other{}, wrong) })
		if e == nil {
			w.fail("shape-mismatch-not-refused", "Create(new collection)", "-", "descriptors of another struct were accepted")
		} else if h, files := treeHash(w.root); h != before {
			w.fail("refused-operation-changed-files", "Create(new collection)", cfgMode(cfg), fmt.Sprintf("refused with %v, yet: %s", e, diffTree(beforeFiles, files)))
		} else {
			right := sod.DefaultSchema
			right.Extension = cfg.Ext
			w.call("Create(new collection)", func() { e = w.db.Create(&Other{}, right) })
			if e == nil {
				w.call("InsertOrUpdate(Other)", func() { e = w.db.InsertOrUpdate(&Other{A: 1, B: "b", C: 2}) })
			}
			if e != nil {
				w.fail("create-failed", "Create(new collection)", "after-refused-create", e.Error())
			}
		}
		stats.Count("refused_first_create_checks", 1)
	}
	// (c) compatible Create is idempotent and preserves data
	for i := 0; i < 2 && !w.failed(); i++ {
		if e := w.Create(); e != nil {
			w.fail("compatible-create-refused", "Create", "-", e.Error())
		}
		clockSettle()
		w.ReadSweep()
		w.SearchSweep(20)
	}
	// data operations go on
	w.Run(HistOpts{Steps: 4, MaxObjs: 12, Rec: RecOpts{ValidOnly: true, Simple: true}, Mix: Mix{Ins: 60, Upd: 25, Del: 10}})
	w.ReadSweep()
	var sample interface{}
	if k < c17ShapePairs*6+2 {
		sample = map[string]interface{}{"config": cfg.String(), "ops": w.absOps}
	}
	return w.finish(w.absOps, w.accepts >= 1, sample)
}

// ---- part 3: switching cache / async settings on a live handle ----

func runC17Switch(k int, rng *Rng) CaseResult {
	cfg := genConfig(rng, GenOpts{})
	if cfg.Async == 1 {
		cfg.Async = 2
	}
	clockNewCase(clockVirtual)
	installHooks(stdHooks())
	w := NewWorld("C17", rng, cfg, caseDir(k, "c17w"))
	w.storeWant = false
	defer w.Cleanup()
	if !w.OpenCreate() {
		return w.finish(nil, false, nil)
	}
	switches := 0
	var kinds []string
	schemaValues := map[string]*sod.Schema{}
	var lastAsync *Config
	if cfg.Async != 0 {
		c := cfg
		lastAsync = &c
		schemaValues[fmt.Sprintf("%v/%d/%d/%s", cfg.Cache, cfg.Async, cfg.Threshold, cfg.Timeout)] = w.lastSchema
	}
	o := HistOpts{MaxObjs: 10, Rec: RecOpts{ValidOnly: true, Simple: true}, Mix: Mix{Ins: 45, Upd: 30, Del: 12, Many: 5, Noop: 3}}
	steps := 10 + rng.Intn(20)
	for i := 0; i < steps && !w.failed(); i++ {
		switch x := rng.Intn(100); {
		case x < 18:
			w.step++
			old := w.cfg
			nc := cloneCfg(w.cfg)
			switch rng.Intn(4) {
			case 0:
				nc.Cache = !nc.Cache
			case 1:
				if nc.Async == 0 && lastAsync != nil && rng.P(0.6) {
					// back to the asynchronous settings used before (their Schema value is still held)
					nc.Async, nc.Threshold, nc.Timeout, nc.Cache = lastAsync.Async, lastAsync.Threshold, lastAsync.Timeout, lastAsync.Cache
				} else if nc.Async == 0 {
					nc.Async, nc.Threshold, nc.Timeout = 2, pick(rng, []int{1, 3, 50}), pick(rng, []time.Duration{100 * time.Millisecond, 300 * time.Millisecond, time.Hour})
				} else {
					nc.Async, nc.Threshold, nc.Timeout = 0, 0, 0
				}
			case 2:
				if nc.Async != 0 {
					nc.Threshold, nc.Timeout = pick(rng, []int{1, 2, 50}), pick(rng, []time.Duration{100 * time.Millisecond, 200 * time.Millisecond, time.Hour})
				} else {
					nc.Cache = !nc.Cache
				}
			default:
				nc.Cache = rng.Bool()
				if rng.Bool() {
					nc.Async, nc.Threshold, nc.Timeout = 2, 3, 300*time.Millisecond
				} else {
					nc.Async, nc.Threshold, nc.Timeout = 0, 0, 0
				}
			}
			kind := fmt.Sprintf("cache:%v->%v,async:%v->%v", old.Cache, nc.Cache, old.Async != 0, nc.Async != 0)
			kinds = append(kinds, kind)
			w.logf("Create switching settings %s (th=%d,to=%s)", kind, nc.Threshold, nc.Timeout)
			w.cfg = nc
			w.m.cfg = nc
			var e error
			// an application toggles between the Schema values it holds (one per mode) as often
			// as it builds a new one
			key := fmt.Sprintf("%v/%d/%d/%s", nc.Cache, nc.Async, nc.Threshold, nc.Timeout)
			sv, held := schemaValues[key]
			if nc.Async != 0 {
				c := nc
				lastAsync = &c
			}
			if !held || rng.P(0.4) {
				v := schemaFor(nc, &Rec{})
				sv = &v
				schemaValues[key] = sv
			} else {
				kind += ",held-value"
				kinds[len(kinds)-1] = kind
			}
			w.call("Create(switch)", func() { e = w.db.Create(&Rec{}, *sv) })
			if e != nil {
				w.fail("settings-switch-refused", "Create", kind, e.Error())
				break
			}
			switches++
			w.abs("switch:" + kind)
			clockSettle()
			w.ReadSweep()
		case x < 35:
			w.step++
			n := 1 + rng.Intn(4)
			w.logf("tick x%d", n)
			for j := 0; j < n; j++ {
				clockTick()
			}
			w.abs("tick")
			w.ReadSweep()
		default:
			w.Step(o)
			w.ReadSweep()
		}
	}
	// "without disturbing the running process": whatever was switched, if the collection ends up
	// asynchronous its flusher runs, and silence for timeout + 4 iterations brings everything to disk
	if !w.failed() && switches > 0 && w.cfg.Async != 0 && w.cfg.Timeout <= time.Second && shimAvailable {
		clockSettle()
		n := int(w.cfg.Timeout/(100*time.Millisecond)) + 4
		for j := 0; j < n && clockLive() > 0; j++ {
			clockTick()
		}
		sp, ex := clockFlusherCensus()
		if st := w.diskStatus(); st.dirty > 0 || !st.schemaOK {
			w.fail("pending-not-flushed-after-switch", "flusher", "-", fmt.Sprintf("after the switches %v and timeout+4 iterations without calls: dirty=%d schema=%v; flushers: %d running (%d started, %d returned)", kinds, st.dirty, st.schemaOK, clockLive(), sp, ex))
		}
		stats.Count("flush_after_switch_checks", 1)
	}
	// nothing accepted may be lost: Close, decode the directory, reopen
	if !w.failed() {
		w.Reopen(false)
		w.DirSweep()
		w.ReadSweep()
		w.SearchSweep(20)
	}
	var sample interface{}
	if k%50 == 0 {
		sample = map[string]interface{}{"config": cfg.String(), "ops": w.absOps, "switches": kinds}
	}
	return w.finish(w.absOps, switches >= 1 && w.accepts >= 2, sample)
}
