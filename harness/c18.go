package main

import (
	"bytes"
	"encoding/json"
	"fmt"
	"os"
	"os/exec"
	"path/filepath"
	"sort"
	"strings"

	"github.com/0xrawsec/sod"
)

// C18 — on-disk layout stable and readable by other tools/versions (DESIGN 4/C18).

var goldenNames = []string{"g0a", "g0b", "g1a", "g1b", "g2a", "g2b", "g3a", "g3b", "g4a", "g4b", "g5a", "g5b"}

const goldenVariants = 3 // lazy load / Create first / writes first then reopen

func init() {
	drivers["C18"] = &driver{cases: func(t string) int {
		n := len(goldenNames)*goldenVariants + goldenExtras
		if t == "thorough" {
			return n + 2000
		}
		return n + 100
	}, run: runC18}
}

func goldenRoot() string {
	if d := os.Getenv("VERIF_DIR"); d != "" {
		return filepath.Join(d, "golden")
	}
	return "/verif/golden"
}

func isIntegerLiteral(n json.Number) bool {
	s := n.String()
	return s != "" && !strings.ContainsAny(s, ".eE")
}

// layoutCheck walks the collection directory with the independent decoder and
// compares names, encodings, object bytes and schema.json with the model.
func (w *World) layoutCheck(exactBytes bool) {
	if w.failed() {
		return
	}
	stats.Count("layout_checks", 1)
	// directory name
	want := "main.Rec"
	if w.cfg.LowerName {
		want = goldenLowerName("main.Rec")
	}
	ents, err := os.ReadDir(w.root)
	if err != nil {
		w.fail("layout-root", "-", "-", err.Error())
		return
	}
	found := false
	for _, e := range ents {
		if e.Name() == want && e.IsDir() {
			found = true
		}
	}
	if !found {
		var names []string
		for _, e := range ents {
			names = append(names, e.Name())
		}
		w.fail("layout-dirname", "-", "-", fmt.Sprintf("expected collection directory %q, root contains %v", want, names))
		return
	}
	d := readDisk(filepath.Join(w.root, want), w.cfg.Ext, w.cfg.Compress)
	if !d.HasSchema {
		w.fail("layout-schema-missing", "-", "-", "no schema.json")
		return
	}
	if len(d.Stray) > 0 {
		w.fail("layout-filename", "-", "-", fmt.Sprintf("entries that are neither schema.json nor <uuid>%s%s: %v", w.cfg.Ext, map[bool]string{true: ".gz", false: ""}[w.cfg.Compress], d.Stray))
		return
	}
	for u, e := range d.ObjErr {
		w.fail("layout-encoding", "-", "-", fmt.Sprintf("%s: %s", short(u), e))
		return
	}
	if len(d.Objects) != len(w.m.objs) {
		w.fail("layout-file-count", "-", "-", fmt.Sprintf("%d object files for %d stored objects", len(d.Objects), len(w.m.objs)))
		return
	}
	for u, x := range w.m.objs {
		raw, ok := d.Objects[u]
		if !ok {
			w.fail("layout-file-count", "-", "-", "no file for "+short(u))
			return
		}
		wantB, _ := json.Marshal(x)
		if exactBytes && !bytes.Equal(raw, wantB) {
			w.fail("layout-object-content", "-", "-", fmt.Sprintf("file content is not the plain JSON encoding of the object\n file %s\n json %s", first(string(raw), 500), first(string(wantB), 500)))
			return
		}
		if y, err := decodeRec(u, raw); err != nil || canonJSON(y) != canonJSON(x) {
			w.fail("layout-object-content", "-", "-", fmt.Sprintf("file does not decode to the stored object: %v", err))
			return
		}
	}
	// schema.json structure
	s := d.Schema
	if s == nil {
		w.fail("layout-schema", "-", "-", "schema.json undecodable: "+d.SchemaErr)
		return
	}
	bad := func(f string, a ...interface{}) { w.fail("layout-schema", "-", "-", fmt.Sprintf(f, a...)) }
	for _, key := range []string{"fields", "extension", "compress", "cache", "index"} {
		if _, ok := s[key]; !ok {
			bad("schema.json lacks key %q (has %v)", key, mapKeys(s))
			return
		}
	}
	if s["extension"] != w.cfg.Ext || s["compress"] != w.cfg.Compress || s["cache"] != w.cfg.Cache {
		bad("settings extension=%v compress=%v cache=%v, configuration %s", s["extension"], s["compress"], s["cache"], w.cfg)
		return
	}
	if w.cfg.Async != 0 {
		aw, ok := s["async-writes"].(map[string]interface{})
		if !ok {
			bad("async-writes missing")
			return
		}
		if aw["enable"] != true || fmt.Sprint(aw["threshold"]) != fmt.Sprint(w.cfg.Threshold) || aw["timeout"] != w.cfg.Timeout.String() {
			bad("async-writes %v, configuration th=%d to=%s", aw, w.cfg.Threshold, w.cfg.Timeout)
			return
		}
	}
	fields, ok := s["fields"].(map[string]interface{})
	if !ok {
		bad("fields is not an object")
		return
	}
	for _, f := range recFields {
		if !f.Desc {
			continue
		}
		fd, ok := fields[f.Path].(map[string]interface{})
		if !ok {
			bad("fields lacks descriptor %q", f.Path)
			return
		}
		if fd["path"] != f.Path || fd["type"] != f.GoType {
			bad("descriptor %q: path=%v type=%v", f.Path, fd["path"], fd["type"])
			return
		}
		if _, ok := fd["constraints"].(map[string]interface{}); !ok {
			bad("descriptor %q lacks constraints", f.Path)
			return
		}
	}
	idx, ok := s["index"].(map[string]interface{})
	if !ok {
		bad("index is not an object")
		return
	}
	ids, ok := idx["object-ids"].(map[string]interface{})
	if !ok {
		bad("index lacks object-ids")
		return
	}
	byID := map[string]string{}
	for id, u := range ids {
		us, ok := u.(string)
		if !ok {
			bad("object-ids value not a string")
			return
		}
		if _, err := json.Number(id).Int64(); err != nil {
			bad("object id %q is not an integer", id)
			return
		}
		byID[id] = us
		if _, ok := w.m.objs[us]; !ok {
			bad("object-ids lists %s which is not stored", short(us))
			return
		}
	}
	if len(byID) != len(w.m.objs) {
		bad("object-ids has %d entries for %d stored objects", len(byID), len(w.m.objs))
		return
	}
	ifields, ok := idx["fields"].(map[string]interface{})
	if !ok {
		bad("index lacks fields")
		return
	}
	for p := range w.cfg.Fields {
		if !w.cfg.indexed(p) {
			continue
		}
		fi, ok := ifields[p].(map[string]interface{})
		if !ok {
			bad("index.fields lacks indexed field %q", p)
			return
		}
		f := recFieldByPath[p]
		if fi["name"] != p || fi["cast"] != f.Kind {
			bad("index field %q: name=%v cast=%v (want cast %s)", p, fi["name"], fi["cast"], f.Kind)
			return
		}
		if _, ok := fi["constraints"].(map[string]interface{}); !ok {
			bad("index field %q lacks constraints", p)
			return
		}
		tuples, ok := fi["index"].([]interface{})
		if !ok {
			bad("index field %q lacks index array", p)
			return
		}
		if len(tuples) != len(w.m.objs) {
			bad("index field %q has %d tuples for %d objects", p, len(tuples), len(w.m.objs))
			return
		}
		var prev *Key
		for _, t := range tuples {
			tt, ok := t.([]interface{})
			if !ok || len(tt) != 2 {
				bad("index field %q: tuple is not [value, id]: %v", p, t)
				return
			}
			idn, ok := tt[1].(json.Number)
			if !ok || !isIntegerLiteral(idn) {
				bad("index field %q: id %v is not an integer", p, tt[1])
				return
			}
			u, ok := byID[idn.String()]
			if !ok {
				bad("index field %q: tuple for unknown id %s", p, idn)
				return
			}
			var k Key
			switch f.Kind {
			case "string":
				sv, ok := tt[0].(string)
				if !ok {
					bad("index field %q: value %v is not a string", p, tt[0])
					return
				}
				k = Key{Kind: "string", S: sv}
			case "int64":
				n, ok := tt[0].(json.Number)
				if !ok || !isIntegerLiteral(n) {
					bad("index field %q: value %v is not an exact decimal integer", p, tt[0])
					return
				}
				v, err := n.Int64()
				if err != nil {
					bad("index field %q: %v", p, err)
					return
				}
				k = Key{Kind: "int64", I: v}
			case "uint64":
				n, ok := tt[0].(json.Number)
				if !ok || !isIntegerLiteral(n) {
					bad("index field %q: value %v is not an exact decimal integer", p, tt[0])
					return
				}
				var v uint64
				if _, err := fmt.Sscan(n.String(), &v); err != nil {
					bad("index field %q: %v", p, err)
					return
				}
				k = Key{Kind: "uint64", U: v}
			case "float64":
				n, ok := tt[0].(json.Number)
				if !ok {
					bad("index field %q: value %v is not a number", p, tt[0])
					return
				}
				v, err := n.Float64()
				if err != nil {
					bad("index field %q: %v", p, err)
					return
				}
				k = Key{Kind: "float64", F: v}
			}
			mk, _ := recKey(w.m.objs[u], p)
			if cmpKey(mk, k) != 0 {
				bad("index field %q: tuple value %s for object %s whose field holds %s", p, k, short(u), mk)
				return
			}
			if prev != nil && cmpKey(*prev, k) < 0 {
				bad("index field %q: tuples not in non-increasing order", p)
				return
			}
			kk := k
			prev = &kk
		}
	}
}

func mapKeys(m map[string]interface{}) []string {
	var out []string
	for k := range m {
		out = append(out, k)
	}
	sort.Strings(out)
	return out
}

func copyTree(src, dst string) error {
	return exec.Command("cp", "-a", src, dst).Run()
}

const goldenExtras = 2

func runC18Extra(k int, rng *Rng) CaseResult {
	name := fmt.Sprintf("x%d", k)
	var man GoldenExtra
	b, err := os.ReadFile(filepath.Join(goldenRoot(), name, "manifest.json"))
	if err != nil || json.Unmarshal(b, &man) != nil {
		return CaseResult{Inconclusive: "harness: golden manifest unreadable: " + name}
	}
	clockNewCase(clockReal)
	installHooks(stdHooks())
	root := caseDir(k, "c18x")
	os.MkdirAll(filepath.Dir(root), 0o755)
	if err := copyTree(filepath.Join(goldenRoot(), name, "db"), root); err != nil {
		return CaseResult{Inconclusive: "harness: cannot copy golden: " + err.Error()}
	}
	cfg := Config{Ext: ".json", LowerName: man.Lower}
	w := NewWorld("C18", rng, cfg, root)
	defer w.Cleanup()
	w.Open()
	w.abs("golden-extra:" + name)
	var objs []sod.Object
	w.call("All(URLRec)", func() { objs, err = w.db.All(&URLRec{}) })
	if err != nil || len(objs) != len(man.Objs) {
		w.fail("golden-open", "All", "acronym-type", fmt.Sprintf("collection of type URLRec written by the pinned release in directory %q: %d objects, err=%v (manifest: %d)", man.Dir, len(objs), err, len(man.Objs)))
		return w.finish(w.absOps, true, nil)
	}
	for _, o := range objs {
		if man.Objs[o.UUID()] != canonJSON(o) {
			w.fail("golden-open", "All", "acronym-type", "object differs from manifest")
		}
	}
	var n int
	w.call("Search(URLRec)", func() {
		s := w.db.Search(&URLRec{}, "Host", "=", "HOST1.Example")
		err, n = s.Err(), s.Len()
	})
	if err != nil || n != 1 {
		w.fail("golden-open", "Search", "acronym-type", fmt.Sprintf("Host = HOST1.Example (unique,lower): len=%d err=%v", n, err))
	}
	dup := &URLRec{Host: "host0.EXAMPLE"}
	w.call("InsertOrUpdate(URLRec)", func() { err = w.db.InsertOrUpdate(dup) })
	if !sod.IsUnique(err) {
		w.fail("golden-open", "InsertOrUpdate", "acronym-type", fmt.Sprintf("duplicate unique key accepted: %v", err))
	}
	fresh := &URLRec{Host: "new.example", Hits: 99}
	w.call("InsertOrUpdate(URLRec)", func() { err = w.db.InsertOrUpdate(fresh) })
	if err != nil {
		w.fail("golden-open", "InsertOrUpdate", "acronym-type", err.Error())
	}
	w.call("Close", func() { err = w.db.Close() })
	ents, _ := os.ReadDir(root)
	if len(ents) != 1 || ents[0].Name() != man.Dir {
		var names []string
		for _, e := range ents {
			names = append(names, e.Name())
		}
		w.fail("layout-dirname", "-", "acronym-type", fmt.Sprintf("after writing through the current code the root contains %v; the pinned release names the collection %q", names, man.Dir))
	}
	res := w.finish(w.absOps, true, nil)
	res.Sample = map[string]interface{}{"golden": name, "type": "main.URLRec", "lowercase_names": man.Lower, "dir": man.Dir}
	return res
}

func runC18(k int, rng *Rng) CaseResult {
	if k < goldenExtras {
		return runC18Extra(k, rng)
	}
	k -= goldenExtras
	if k >= len(goldenNames)*goldenVariants {
		return runC18Fresh(k, rng)
	}
	name := goldenNames[k/goldenVariants]
	variant := k % goldenVariants
	var man GoldenManifest
	b, err := os.ReadFile(filepath.Join(goldenRoot(), name, "manifest.json"))
	if err != nil || json.Unmarshal(b, &man) != nil {
		return CaseResult{Inconclusive: "harness: golden manifest unreadable: " + name}
	}
	cfg := man.Config
	clockNewCase(clockModeFor(cfg))
	installHooks(stdHooks())
	root := caseDir(k, "c18g")
	os.MkdirAll(filepath.Dir(root), 0o755)
	if err := copyTree(filepath.Join(goldenRoot(), name, "db"), root); err != nil {
		return CaseResult{Inconclusive: "harness: cannot copy golden: " + err.Error()}
	}
	w := NewWorld("C18", rng, cfg, root)
	w.predict, w.storeWant = true, false
	defer w.Cleanup()
	// the model is the manifest
	for _, u := range man.Order {
		x, err := decodeRec(u, []byte(man.Recs[u]))
		if err != nil {
			return CaseResult{Inconclusive: "harness: golden manifest record: " + err.Error()}
		}
		w.m.Put(x)
		w.seen[u] = true
	}
	w.m.tags = 100
	w.abs(fmt.Sprintf("golden:%s/variant%d", name, variant))
	// the golden directory itself obeys the layout rules
	w.layoutCheck(true)
	w.Open()
	api := "open(lazy)"
	if variant == 1 {
		api = "open(Create)"
		if err := w.Create(); err != nil {
			w.fail("golden-open", api, "-", err.Error())
		}
		clockSettle()
	}
	if !w.failed() {
		var e error
		w.call("Schema", func() { _, e = w.db.Schema(&Rec{}) })
		if e != nil {
			w.fail("golden-open", api, "-", fmt.Sprintf("directory written by the pinned release does not load: %v", e))
		}
		clockSettle()
	}
	if variant != 2 {
		w.ReadSweep()
		w.SearchSweep(0) // full matrix
		for _, f := range recFields {
			if cfg.indexed(f.Path) {
				w.checkAssignIndex(f.Path)
			}
		}
	}
	// other collections of the same root
	w.goldenOthers(&man)
	// constraints: conflicting and free keys behave as predicted; then more writes
	o := HistOpts{Steps: 12, MaxObjs: 14, BiasUnique: true, Rec: RecOpts{ValidOnly: true},
		Mix: Mix{Ins: 40, Upd: 30, Noop: 5, Del: 10, Many: 8, Flush: 2}}
	o.AfterStep = func(w *World, kind string) { w.ReadSweep() }
	w.Run(o)
	// stays loadable after further writes by the current code
	if !w.failed() {
		w.Reopen(false)
		w.ReadSweep()
		w.SearchSweep(60)
		w.layoutCheck(true)
		var e error
		w.call("Control", func() { e = w.db.Control() })
		if e != nil {
			w.fail("golden-control", "Control", "-", e.Error())
		}
	}
	res := w.finish(w.absOps, true, nil)
	if variant == 0 {
		res.Sample = map[string]interface{}{"golden": name, "written_by": man.Commit, "config": cfg.String(), "objects": len(man.Recs), "then": w.absOps}
	}
	return res
}

func (w *World) goldenOthers(man *GoldenManifest) {
	if w.failed() {
		return
	}
	var objs []sod.Object
	var err error
	w.call("All(Other)", func() { objs, err = w.db.All(&Other{}) })
	if err != nil || len(objs) != len(man.Others) {
		w.fail("golden-other-collection", "All", "-", fmt.Sprintf("Other: %d objects err=%v, manifest %d", len(objs), err, len(man.Others)))
		return
	}
	for _, o := range objs {
		if man.Others[o.UUID()] != canonJSON(o) {
			w.fail("golden-other-collection", "All", "-", "Other object differs from manifest")
			return
		}
	}
	w.call("All(Tagged)", func() { objs, err = w.db.All(&Tagged{}) })
	if err != nil || len(objs) != len(man.Tagged) {
		w.fail("golden-other-collection", "All", "-", fmt.Sprintf("Tagged: %d objects err=%v, manifest %d", len(objs), err, len(man.Tagged)))
		return
	}
	for _, o := range objs {
		if man.Tagged[o.UUID()] != canonJSON(o) {
			w.fail("golden-other-collection", "All", "-", "Tagged object differs from manifest")
			return
		}
	}
	// constraints from tags still apply: unique,lower name
	var n int
	w.call("Search(Tagged)", func() {
		s := w.db.Search(&Tagged{}, "Name", "=", "NAME1")
		err = s.Err()
		n = s.Len()
	})
	if err != nil || n != 1 {
		w.fail("golden-other-collection", "Search", "-", fmt.Sprintf("Tagged Name=NAME1 (unique,lower): len=%d err=%v", n, err))
		return
	}
	w.call("Search(Tagged)", func() {
		s := w.db.Search(&Tagged{}, "Num", "=", int64(1<<53+1))
		err = s.Err()
		n = s.Len()
	})
	if err != nil || n != 1 {
		w.fail("golden-other-collection", "Search", "-", fmt.Sprintf("Tagged Num=2^53+1: len=%d err=%v", n, err))
		return
	}
	dup := &Tagged{Name: "name0"}
	w.call("InsertOrUpdate(Tagged)", func() { err = w.db.InsertOrUpdate(dup) })
	if !sod.IsUnique(err) {
		w.fail("golden-other-collection", "InsertOrUpdate", "-", fmt.Sprintf("duplicate unique key accepted on golden Tagged: %v", err))
		return
	}
	ob := &Other{A: 5, B: "b1"}
	w.call("InsertOrUpdate(Other)", func() { err = w.db.InsertOrUpdate(ob) })
	if !sod.IsUnique(err) {
		w.fail("golden-other-collection", "InsertOrUpdate", "-", fmt.Sprintf("duplicate unique key accepted on golden Other: %v", err))
	}
}

// runC18Fresh: a directory written by the current code must obey the layout
// rules and be readable by the independent decoder.
func runC18Fresh(k int, rng *Rng) CaseResult {
	cfg := genConfig(rng, GenOpts{})
	clockNewCase(clockModeFor(cfg))
	installHooks(stdHooks())
	w := NewWorld("C18", rng, cfg, caseDir(k, "c18f"))
	w.storeWant = false
	defer w.Cleanup()
	if !w.OpenCreate() {
		return w.finish(nil, false, nil)
	}
	o := HistOpts{Steps: 5 + rng.Intn(20), MaxObjs: 12, Rec: RecOpts{ValidOnly: true},
		Mix: Mix{Ins: 40, Upd: 30, Noop: 3, Del: 10, Many: 8, Bulk: 3, SDel: 2, Reopen: 3, Flush: 3, Tick: 2}}
	o.AfterStep = func(w *World, kind string) {
		if w.cfg.Async == 0 && w.rng.P(0.3) {
			w.layoutCheck(true)
		}
	}
	w.Run(o)
	if !w.failed() {
		w.Reopen(false) // quiescent point: everything flushed and committed
		w.layoutCheck(true)
	}
	var sample interface{}
	if k < len(goldenNames)*goldenVariants+2 {
		sample = map[string]interface{}{"fresh_directory": cfg.String(), "ops": w.absOps}
	}
	return w.finish(w.absOps, w.accepts >= 2, sample)
}
