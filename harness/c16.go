package main

import (
	"strings"
	"unicode"
)

// C16 — upper/lower canonicalise stored and searched values (DESIGN 4/C16).

func init() {
	drivers["C16"] = &driver{cases: tierN(300, 30000), run: runC16}
}

func caseVariants(s string) []string {
	out := []string{s, strings.ToUpper(s), strings.ToLower(s), strings.ToTitle(s)}
	// alternating case
	var b []rune
	for i, r := range s {
		if i%2 == 0 {
			b = append(b, unicode.ToUpper(r))
		} else {
			b = append(b, unicode.ToLower(r))
		}
	}
	out = append(out, string(b))
	return out
}

func runC16(k int, rng *Rng) CaseResult {
	cfg := genConfig(rng, GenOpts{CaseBias: 0.75, UniqueBias: 0.2, IndexBias: 0.5})
	// a unique + case-constrained key most of the time
	if rng.P(0.7) {
		c := cfg.Fields["KS"]
		c.Index, c.Unique, c.UniqueOnly = true, true, rng.P(0.3)
		if !c.Upper && !c.Lower {
			if rng.Bool() {
				c.Upper = true
			} else {
				c.Lower = true
			}
		}
		cfg.Fields["KS"] = c
	}
	var cased []string
	for _, p := range casePaths {
		if c := cfg.Fields[p]; c.Upper || c.Lower {
			cased = append(cased, p)
		}
	}
	clockNewCase(clockModeFor(cfg))
	installHooks(stdHooks())
	w := NewWorld("C16", rng, cfg, caseDir(k, "c16"))
	w.predict, w.storeWant, w.ownsTransforms = true, true, true
	defer w.Cleanup()
	if !w.OpenCreate() {
		return w.finish(nil, false, nil)
	}
	probes := 0
	o := HistOpts{Steps: 8 + rng.Intn(14), MaxObjs: 10, BiasUnique: true, Rec: RecOpts{ValidOnly: true, Simple: true},
		Mix: Mix{Ins: 40, Upd: 30, Noop: 10, Del: 5, Many: 8, Reopen: 4}}
	o.AfterStep = func(w *World, kind string) {
		// stored == canonical (model stores the canonical value), and
		// re-saving what was read changes nothing (noop steps)
		w.ReadSweep()
		if w.failed() || len(cased) == 0 || w.m.Len() == 0 {
			return
		}
		// differently-cased probes on constrained paths, indexed or not
		for i := 0; i < 3 && !w.failed(); i++ {
			p := pick(w.rng, cased)
			u := pick(w.rng, w.m.Live())
			v, _ := leaf(w.m.objs[u], p)
			s, _ := v.(string)
			for _, pv := range caseVariants(s) {
				w.SearchOne(Query{p, pick(w.rng, []string{"=", "=", "!=", ">=", "<"}), pv})
				probes++
			}
			// a raw (non-canonical) domain value as probe
			w.SearchOne(Query{p, "=", pick(w.rng, domCase)})
			probes++
			// the same canonicalisation inside And / Or chains, in any position
			if vs := caseVariants(s); len(vs) > 0 && !w.failed() {
				cq := Query{p, pick(w.rng, []string{"=", "=", "!=", ">=", "<"}), pick(w.rng, vs)}
				other := Query{"K", pick(w.rng, []string{">=", "<", "!="}), pick(w.rng, domK)}
				if p2 := pick(w.rng, cased); w.rng.P(0.4) {
					v2, _ := leaf(w.m.objs[pick(w.rng, w.m.Live())], p2)
					s2, _ := v2.(string)
					if vs2 := caseVariants(s2); len(vs2) > 0 {
						other = Query{p2, pick(w.rng, []string{"=", "!=", "<="}), pick(w.rng, vs2)}
					}
				}
				conn := pick(w.rng, []string{"and", "and", "or"})
				if w.rng.Bool() {
					w.chain([]Query{other, cq}, []string{conn})
				} else {
					w.chain([]Query{cq, other, cq}, []string{conn, pick(w.rng, []string{"and", "or"})})
				}
				probes++
			}
		}
	}
	w.Run(o)
	if !w.failed() && k%3 == 0 {
		// optional (pointer) string fields: constraints only reachable through a custom schema
		stats.Count("ptr_observations", int64(w.ptrScenario(false, true)))
	}
	var sample interface{}
	if k < sampleMax {
		sample = map[string]interface{}{"config": cfg.String(), "ops": w.absOps, "case_constrained_paths": cased, "case_probes": probes}
	}
	return w.finish(w.absOps, len(cased) > 0 && probes > 0 && w.accepts >= 2, sample)
}
