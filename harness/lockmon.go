package main

import (
	"fmt"
	"runtime"
	"sort"
	"strings"
	"sync"
)

// ---- M4: lock-discipline monitor ----

type heldLock struct {
	mu    interface{}
	write bool
	class string
	site  string
	since int64 // value of the event counter at acquisition
}

type waitInfo struct {
	mu    interface{}
	write bool
	class string
	site  string
}

type lockViolation struct {
	Kind   string // recursive | order-inversion | wait-for-cycle
	Class  string
	Site   string
	Detail string
}

var lockmon = struct {
	mu       sync.Mutex
	on       bool
	light    bool // only held sets and recursion (no sites, order graph, wait-for cycles): cheap enough for fuzzing
	held     map[int64][]heldLock
	waiting  map[int64]*waitInfo
	edges    map[string]map[string]string           // class -> class -> first site (reporting, evidence)
	idEdges  map[interface{}]map[interface{}]string // mutex identity -> identity -> first site (decides inversions)
	viol     []lockViolation
	seenViol map[string]bool
	events   int64
	acq      []string // order of DB.l acquisitions by goroutine (interleaving fingerprint)
	// WaitGroups of the package: counter per group, goroutines blocked in Wait, goroutines of the
	// package alive (entered, not returned)
	wgCount   map[interface{}]int
	wgWaiting map[int64]interface{}
	alive     map[int64]string
}{wgCount: map[interface{}]int{}, wgWaiting: map[int64]interface{}{}, alive: map[int64]string{}, held: map[int64][]heldLock{}, waiting: map[int64]*waitInfo{}, edges: map[string]map[string]string{}, idEdges: map[interface{}]map[interface{}]string{}, seenViol: map[string]bool{}}

func lockmonReset(on bool) {
	lockmon.mu.Lock()
	lockmon.on = on
	lockmon.light = false
	lockmon.held = map[int64][]heldLock{}
	lockmon.waiting = map[int64]*waitInfo{}
	lockmon.edges = map[string]map[string]string{}
	lockmon.idEdges = map[interface{}]map[interface{}]string{}
	lockmon.viol = nil
	lockmon.seenViol = map[string]bool{}
	lockmon.acq = nil
	lockmon.wgCount = map[interface{}]int{}
	lockmon.wgWaiting = map[int64]interface{}{}
	lockmon.alive = map[int64]string{}
	lockmon.mu.Unlock()
}

func lockmonTake() []lockViolation {
	lockmon.mu.Lock()
	defer lockmon.mu.Unlock()
	v := lockmon.viol
	lockmon.viol = nil
	return v
}

// lockSite returns (class of the mutex, site): the class is the receiver type
// of the innermost sod function that touches the mutex.
func lockSite() (class, site string) {
	pcs := make([]uintptr, 32)
	k := runtime.Callers(3, pcs)
	frames := runtime.CallersFrames(pcs[:k])
	var chain []string
	for {
		fr, more := frames.Next()
		fn := fr.Function
		if i := strings.Index(fn, "github.com/0xrawsec/sod."); i >= 0 {
			s := fn[i+len("github.com/0xrawsec/sod."):]
			if !strings.Contains(strings.ToLower(s), "verif") {
				recv := ""
				name := s
				if strings.HasPrefix(s, "(") {
					if j := strings.Index(s, ")."); j > 0 {
						recv = strings.Trim(s[1:j], "*")
						name = s[j+2:]
					}
				}
				if j := strings.Index(name, ".func"); j > 0 {
					name = name[:j]
				}
				if class == "" {
					class = recv
					if class == "" {
						class = name
					}
				}
				if len(chain) == 0 || chain[len(chain)-1] != name {
					chain = append(chain, name)
				}
				if len(chain) >= 4 {
					break
				}
			}
		}
		if !more {
			break
		}
	}
	if class == "" {
		class = "?"
	}
	return class, strings.Join(chain, "<-")
}

func (lv lockViolation) key() string { return lv.Kind + "|" + lv.Class + "|" + lv.Site }

func lockmonAdd(v lockViolation) {
	if !lockmon.seenViol[v.key()] {
		lockmon.seenViol[v.key()] = true
		lockmon.viol = append(lockmon.viol, v)
	}
}

// lockReach: is mutex `to` reachable from `from` in the identity-level order
// graph? Two different mutexes of one struct (or of one class) are distinct
// nodes, so taking them in a fixed order is never reported.
func lockReach(from, to interface{}, seen map[interface{}]bool) (string, bool) {
	if seen[from] {
		return "", false
	}
	seen[from] = true
	for n, site := range lockmon.idEdges[from] {
		if n == to {
			return site, true
		}
		if s, ok := lockReach(n, to, seen); ok {
			return s, true
		}
	}
	return "", false
}

// blockers returns the goroutines that currently prevent g's request.
func lockBlockers(g int64, w *waitInfo) []int64 {
	var out []int64
	for h, locks := range lockmon.held {
		if h == g {
			continue
		}
		for _, l := range locks {
			if l.mu == w.mu && (l.write || w.write) {
				out = append(out, h)
			}
		}
	}
	if !w.write {
		// writer preference: a reader also waits behind a waiting writer
		for h, ww := range lockmon.waiting {
			if h != g && ww.mu == w.mu && ww.write {
				out = append(out, h)
			}
		}
	}
	return out
}

func lockCycle(start, cur int64, depth int, seen map[int64]bool) bool {
	w := lockmon.waiting[cur]
	if w == nil || depth > 16 {
		return false
	}
	for _, b := range lockBlockers(cur, w) {
		if b == start {
			return true
		}
		if !seen[b] {
			seen[b] = true
			if lockCycle(start, b, depth+1, seen) {
				return true
			}
		}
	}
	return false
}

func lockHook(op string, mu interface{}) {
	lockmon.mu.Lock()
	defer lockmon.mu.Unlock()
	if !lockmon.on {
		return
	}
	lockmon.events++
	g := gid()
	switch op {
	case "wg+":
		lockmon.wgCount[mu]++
		return
	case "wg-":
		lockmon.wgCount[mu]--
		return
	case "wgwait?":
		if lockmon.wgCount[mu] > 0 {
			lockmon.wgWaiting[g] = mu
			wgStallCheck()
		}
		return
	case "wgwait!":
		// the wait ended: whatever was concluded about it is withdrawn
		delete(lockmon.wgWaiting, g)
		key := fmt.Sprintf("waitgroup-deadlock|g%d", g)
		for i := 0; i < len(lockmon.viol); i++ {
			if lockmon.viol[i].Kind == "waitgroup-deadlock" && strings.HasPrefix(lockmon.viol[i].Detail, key) {
				lockmon.viol = append(lockmon.viol[:i], lockmon.viol[i+1:]...)
				i--
			}
		}
		for k := range lockmon.seenViol {
			if strings.HasPrefix(k, "waitgroup-deadlock|") {
				delete(lockmon.seenViol, k)
			}
		}
		return
	}
	defer func() {
		if len(lockmon.wgWaiting) > 0 && !lockmon.light {
			wgStallCheck()
		}
	}()
	switch op {
	case "lock?", "rlock?":
		write := op == "lock?"
		if lockmon.light {
			for _, h := range lockmon.held[g] {
				if h.mu == mu {
					lockmonAdd(lockViolation{Kind: "recursive-acquisition", Class: "?", Site: "-", Detail: fmt.Sprintf("goroutine %d requests a mutex it already holds", g)})
				}
			}
			lockmon.waiting[g] = &waitInfo{mu: mu, write: write, class: "?", site: "-"}
			return
		}
		class, site := lockSite()
		class += mutexKind(mu)
		// (i) re-acquisition of a mutex the goroutine already holds
		for _, h := range lockmon.held[g] {
			if h.mu == mu {
				mode := map[bool]string{true: "W", false: "R"}
				lockmonAdd(lockViolation{Kind: "recursive-" + mode[h.write] + "-then-" + mode[write], Class: class, Site: site,
					Detail: fmt.Sprintf("goroutine %d requests %s on a %s mutex it already holds in mode %s (held since %s); with Go's writer-preferring RWMutex a writer queued in between blocks both forever", g, mode[write], class, mode[h.write], h.site)})
			}
		}
		// (ii) lock order, decided on mutex identities
		for _, h := range lockmon.held[g] {
			if h.mu == mu {
				continue
			}
			if lockmon.idEdges[h.mu] == nil {
				lockmon.idEdges[h.mu] = map[interface{}]string{}
			}
			if _, ok := lockmon.idEdges[h.mu][mu]; !ok {
				if rsite, inv := lockReach(mu, h.mu, map[interface{}]bool{}); inv {
					lockmonAdd(lockViolation{Kind: "order-inversion", Class: h.class + "->" + class, Site: site,
						Detail: fmt.Sprintf("goroutine %d takes a %s mutex while holding a %s mutex; the same two mutexes were taken in the opposite order at %s", g, class, h.class, rsite)})
				}
				lockmon.idEdges[h.mu][mu] = site
			}
			if lockmon.edges[h.class] == nil {
				lockmon.edges[h.class] = map[string]string{}
			}
			if _, ok := lockmon.edges[h.class][class]; !ok {
				lockmon.edges[h.class][class] = site
				stats.SetAdd("lock_order_edges", h.class+"->"+class)
			}
		}
		// (iii) actual wait-for cycle
		w := &waitInfo{mu: mu, write: write, class: class, site: site}
		lockmon.waiting[g] = w
		if lockCycle(g, g, 0, map[int64]bool{}) {
			var parts []string
			for h, ww := range lockmon.waiting {
				parts = append(parts, fmt.Sprintf("g%d waits %s at %s", h, ww.class, ww.site))
			}
			sort.Strings(parts)
			lockmonAdd(lockViolation{Kind: "wait-for-cycle", Class: class, Site: site, Detail: strings.Join(parts, "; ")})
		}
	case "lock!", "rlock!":
		w := lockmon.waiting[g]
		class, site := "?", "?"
		if w != nil {
			class, site = w.class, w.site
		} else {
			class, site = lockSite()
		}
		delete(lockmon.waiting, g)
		lockmon.held[g] = append(lockmon.held[g], heldLock{mu: mu, write: op == "lock!", class: class, site: site, since: lockmon.events})
		if class == "DB" && len(lockmon.acq) < 400 {
			lockmon.acq = append(lockmon.acq, fmt.Sprintf("%d%s", g, map[bool]string{true: "W", false: "R"}[op == "lock!"]))
		}
	case "unlock", "runlock":
		hs := lockmon.held[g]
		for i := len(hs) - 1; i >= 0; i-- {
			if hs[i].mu == mu {
				lockmon.held[g] = append(hs[:i], hs[i+1:]...)
				break
			}
		}
		if len(lockmon.held[g]) == 0 {
			delete(lockmon.held, g)
		}
	}
}

// wgStallCheck (lockmon.mu held): a goroutine blocked in WaitGroup.Wait with a positive counter
// while holding mutexes is deadlocked when nobody who could call Done can run: every goroutine of
// the package that is alive, and every goroutine that holds or requests one of the package's
// mutexes, is (transitively) waiting for a mutex held by the waiter. The verdict is withdrawn if
// the Wait ever returns (the drivers only read it after their own patience ran out).
func wgStallCheck() {
	for g, wg := range lockmon.wgWaiting {
		if lockmon.wgCount[wg] <= 0 || len(lockmon.held[g]) == 0 {
			continue
		}
		stalled := map[int64]bool{g: true}
		for changed := true; changed; {
			changed = false
			for x, w := range lockmon.waiting {
				if stalled[x] {
					continue
				}
				for _, b := range lockBlockers(x, w) {
					if stalled[b] {
						stalled[x], changed = true, true
						break
					}
				}
			}
		}
		all, n := true, 0
		var who []string
		for x, name := range lockmon.alive {
			n++
			all = all && stalled[x]
			if w := lockmon.waiting[x]; w != nil {
				who = append(who, fmt.Sprintf("goroutine %s (g%d) waits %s at %s", name, x, w.class, w.site))
			}
		}
		for x := range lockmon.held {
			all = all && stalled[x]
		}
		for x := range lockmon.waiting {
			all = all && stalled[x]
		}
		if !all || n == 0 {
			continue
		}
		sort.Strings(who)
		h := lockmon.held[g][len(lockmon.held[g])-1]
		lockmonAdd(lockViolation{Kind: "waitgroup-deadlock", Class: h.class, Site: h.site,
			Detail: fmt.Sprintf("waitgroup-deadlock|g%d waits for a WaitGroup (counter %d) while holding the %s mutex taken at %s; every goroutine of the package that could call Done is waiting for that mutex: %s", g, lockmon.wgCount[wg], h.class, h.site, strings.Join(who, "; "))})
	}
}

func lockHooks() *Hooks {
	return &Hooks{Sleep: clockSleep, Go: lockGo, Lock: lockHook}
}

// mutexKind distinguishes a plain mutex from a RW mutex of the same owner.
func mutexKind(mu interface{}) string {
	if strings.Contains(fmt.Sprintf("%T", mu), "verifMutex") {
		return ".mutex"
	}
	return ""
}

// lockLeakCheck reports mutexes still held by goroutine g although it has
// returned from the API call it was running (or is about to exit): nobody can
// ever release them, so every later incompatible request blocks forever. The
// decision is logical (monitor state), not a timer.
func lockLeakCheck(g int64, where string) {
	lockmon.mu.Lock()
	defer lockmon.mu.Unlock()
	if !lockmon.on {
		return
	}
	for _, h := range lockmon.held[g] {
		mode := "R"
		if h.write {
			mode = "W"
		}
		lockmonAdd(lockViolation{Kind: "lock-leak", Class: h.class, Site: h.site,
			Detail: fmt.Sprintf("a %s mutex taken in mode %s at %s is still held after %s returned: it can never be released, later calls needing it block forever", h.class, mode, h.site, where)})
	}
	delete(lockmon.held, g)
}

// lockGo: goroutine lifecycle events of the package (flusher exit with a lock held).
func lockGo(name, ev string) {
	clockGo(name, ev)
	if ev == "enter" || ev == "exit" {
		lockmon.mu.Lock()
		if lockmon.on {
			if ev == "enter" {
				lockmon.alive[gid()] = name
			} else {
				delete(lockmon.alive, gid())
			}
		}
		lockmon.mu.Unlock()
	}
	if ev == "exit" {
		lockLeakCheck(gid(), "goroutine "+name)
	}
}

// lockmonTakeKind removes and returns the recorded violations of one kind.
func lockmonTakeKind(kind string) (out []lockViolation) {
	lockmon.mu.Lock()
	defer lockmon.mu.Unlock()
	var keep []lockViolation
	for _, v := range lockmon.viol {
		if v.Kind == kind {
			out = append(out, v)
		} else {
			keep = append(keep, v)
		}
	}
	lockmon.viol = keep
	return
}

// lockmonLight switches the monitor to its cheap mode (after lockmonReset(true)).
func lockmonLight() {
	lockmon.mu.Lock()
	lockmon.light = true
	lockmon.mu.Unlock()
}

// lockmonWriteHolders lists "goroutine/since/class@site" for every mutex held
// in write mode right now.
func lockmonWriteHolders() (out []string) {
	lockmon.mu.Lock()
	defer lockmon.mu.Unlock()
	for g, hs := range lockmon.held {
		for _, h := range hs {
			if h.write {
				out = append(out, fmt.Sprintf("g%d/%d/%s@%s", g, h.since, h.class, h.site))
			}
		}
	}
	sort.Strings(out)
	return
}
