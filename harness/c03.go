package main

import (
	"fmt"

	"github.com/0xrawsec/sod"
)

// C03 — uniqueness never violated, never over-enforced (DESIGN 4/C03).

func init() {
	drivers["C03"] = &driver{cases: tierN(400, 40000), run: runC03}
}

// pairwiseUnique checks over All() that no two stored objects share a unique value.
func (w *World) pairwiseUnique() {
	ups := w.cfg.uniquePathsSorted()
	if len(ups) == 0 || w.failed() {
		return
	}
	var objs []sod.Object
	var err error
	if w.call("All", func() { objs, err = w.db.All(&Rec{}) }) || err != nil {
		if err != nil {
			w.fail("read-error", "All", "-", err.Error())
		}
		return
	}
	recs, _ := objsToRecs(objs)
	stats.Count("pairwise_checks", int64(len(recs)*(len(recs)-1)/2*len(ups)))
	for _, p := range ups {
		seen := map[string]string{}
		for _, r := range recs {
			k, ok := recKey(r, p)
			if !ok {
				continue
			}
			if o, dup := seen[k.String()]; dup {
				w.fail("unique-violated", "All", "-", fmt.Sprintf("objects %s and %s both hold %s in unique field %s", short(o), short(r.UUID()), k, p))
				return
			}
			seen[k.String()] = r.UUID()
		}
	}
}

func runC03(k int, rng *Rng) CaseResult {
	cfg := genConfig(rng, GenOpts{UniqueBias: 0.45, CaseBias: 0.5})
	if len(cfg.uniquePathsSorted()) == 0 {
		c := cfg.Fields["K"]
		c.Index, c.Unique, c.UniqueOnly = true, true, rng.P(0.4)
		cfg.Fields["K"] = c
	}
	clockNewCase(clockModeFor(cfg))
	installHooks(stdHooks())
	w := NewWorld("C03", rng, cfg, caseDir(k, "c03"))
	w.predict, w.storeWant = true, false
	defer w.Cleanup()
	if !w.OpenCreate() {
		return w.finish(nil, false, nil)
	}
	steps := 12 + rng.Intn(20)
	if tier == "thorough" {
		steps = 15 + rng.Intn(35)
	}
	conflicts, reuse := 0, 0
	o := HistOpts{Steps: steps, MaxObjs: 10, BiasUnique: true, Rec: RecOpts{ValidOnly: true, Simple: true},
		Mix: Mix{Ins: 30, Upd: 35, Noop: 8, Del: 12, Reins: 3, Many: 5, Reopen: 6, Abandon: 2, Create: 1}}
	o.AfterStep = func(w *World, kind string) {
		w.pairwiseUnique()
		w.Invariants("index")
		if w.failed() {
			return
		}
		// the unique index must still answer for every stored object (an
		// entry of one unique field must not change when another field
		// rejected the write)
		for _, p := range w.cfg.uniquePathsSorted() {
			live := w.m.Live()
			if len(live) == 0 {
				break
			}
			u := pick(w.rng, live)
			v, _ := leaf(w.m.objs[u], p)
			w.SearchOne(Query{p, "=", v})
		}
	}
	for i := 0; i < o.Steps && !w.failed(); i++ {
		before := w.rejects
		kind := w.Step(o)
		if w.rejects > before {
			conflicts++
		}
		if kind == "del" || kind == "upd" {
			reuse++
		}
	}
	var sample interface{}
	if k < sampleMax {
		sample = map[string]interface{}{"config": cfg.String(), "ops": w.absOps, "unique_fields": cfg.uniquePathsSorted(), "rejected_by_uniqueness": conflicts}
	}
	return w.finish(w.absOps, conflicts >= 1 && w.accepts >= 3, sample)
}
