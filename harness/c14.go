package main

import (
	"encoding/json"
	"fmt"
	"os"
	"path/filepath"
	"reflect"
	"runtime"
	"sort"
	"time"

	"github.com/0xrawsec/sod"
)

// C14 — stored values are isolated from caller memory (DESIGN 4/C14, M8).

func init() {
	drivers["C14"] = &driver{cases: tierN(500, 30000), run: runC14}
}

var timeT = reflect.TypeOf(time.Time{})

// addrs collects the addresses of every pointer target, slice backing array
// and map reachable through exported fields.
// pins keeps every container whose address was collected reachable: an
// address is only meaningful while its memory cannot be reused.
var pins []interface{}

func addrs(root interface{}) map[uintptr]string {
	out := map[uintptr]string{}
	var walk func(v reflect.Value, path string, top bool)
	walk = func(v reflect.Value, path string, top bool) {
		switch v.Kind() {
		case reflect.Ptr:
			if v.IsNil() {
				return
			}
			if !top && v.Type().Elem().Size() > 0 {
				out[v.Pointer()] = path
				if v.CanInterface() {
					pins = append(pins, v.Interface())
				}
			}
			walk(v.Elem(), path, false)
		case reflect.Interface:
			if !v.IsNil() {
				walk(v.Elem(), path, false)
			}
		case reflect.Struct:
			if v.Type() == timeT {
				return // time.Time shares *Location by design
			}
			t := v.Type()
			for i := 0; i < v.NumField(); i++ {
				if f := t.Field(i); f.IsExported() || (f.Anonymous && f.Type.Kind() == reflect.Struct) {
					walk(v.Field(i), path+"."+t.Field(i).Name, false)
				}
			}
		case reflect.Slice:
			if v.IsNil() {
				return
			}
			if v.Cap() > 0 && v.Type().Elem().Size() > 0 {
				out[v.Pointer()] = path + "[]"
				if v.CanInterface() {
					pins = append(pins, v.Interface())
				}
			}
			for i := 0; i < v.Len(); i++ {
				walk(v.Index(i), fmt.Sprintf("%s[%d]", path, i), false)
			}
		case reflect.Array:
			for i := 0; i < v.Len(); i++ {
				walk(v.Index(i), fmt.Sprintf("%s[%d]", path, i), false)
			}
		case reflect.Map:
			if v.IsNil() {
				return
			}
			out[v.Pointer()] = path + "{}"
			if v.CanInterface() {
				pins = append(pins, v.Interface())
			}
			it := v.MapRange()
			for it.Next() {
				walk(it.Value(), fmt.Sprintf("%s{%v}", path, it.Key()), false)
			}
		}
	}
	walk(reflect.ValueOf(root), "", true)
	return out
}

// scramble overwrites every mutable location reachable through exported fields.
func scramble(root interface{}) (n int) {
	var walk func(v reflect.Value)
	walk = func(v reflect.Value) {
		switch v.Kind() {
		case reflect.Ptr:
			if !v.IsNil() {
				walk(v.Elem())
			}
		case reflect.Interface:
			if v.IsNil() {
				return
			}
			e := v.Elem()
			switch e.Kind() {
			case reflect.Slice, reflect.Map, reflect.Ptr:
				walk(e) // mutate the shared container in place
			default:
				if v.CanSet() {
					v.Set(reflect.ValueOf("scrambled-any"))
					n++
				}
			}
		case reflect.Struct:
			if v.Type() == timeT {
				if v.CanSet() {
					v.Set(reflect.ValueOf(time.Unix(424242, 42).UTC()))
					n++
				}
				return
			}
			t := v.Type()
			for i := 0; i < v.NumField(); i++ {
				if f := t.Field(i); f.IsExported() || (f.Anonymous && f.Type.Kind() == reflect.Struct) {
					walk(v.Field(i))
				}
			}
		case reflect.Slice:
			// also the spare capacity: two holders that append to "their"
			// slice write into it
			full := v
			if v.Cap() > v.Len() {
				full = v.Slice3(0, v.Cap(), v.Cap())
			}
			for i := 0; i < full.Len(); i++ {
				if i >= v.Len() {
					// hidden element: give it a non-zero value
					e := full.Index(i)
					switch e.Kind() {
					case reflect.String:
						e.SetString("hidden!scr")
						n++
					case reflect.Int, reflect.Int8, reflect.Int16, reflect.Int32, reflect.Int64:
						e.SetInt(0x5555)
						n++
					case reflect.Ptr:
						e.Set(reflect.New(e.Type().Elem()))
						n++
					}
					continue
				}
				walk(full.Index(i))
			}
		case reflect.Array:
			for i := 0; i < v.Len(); i++ {
				walk(v.Index(i))
			}
		case reflect.Map:
			if v.IsNil() {
				return
			}
			for _, k := range v.MapKeys() {
				// values are not addressable: mutate what they share, then replace them
				val := v.MapIndex(k)
				walk(val)
				nv := reflect.New(val.Type()).Elem()
				v.SetMapIndex(k, nv)
				n++
			}
			if v.Type().Key().Kind() == reflect.String {
				v.SetMapIndex(reflect.ValueOf("scrambled-key").Convert(v.Type().Key()), reflect.Zero(v.Type().Elem()))
			}
		case reflect.Int, reflect.Int8, reflect.Int16, reflect.Int32, reflect.Int64:
			if v.CanSet() {
				v.SetInt(v.Int() ^ 0x55)
				n++
			}
		case reflect.Uint, reflect.Uint8, reflect.Uint16, reflect.Uint32, reflect.Uint64:
			if v.CanSet() {
				v.SetUint(v.Uint() ^ 0x55)
				n++
			}
		case reflect.Float32, reflect.Float64:
			if v.CanSet() {
				v.SetFloat(v.Float() + 1234.5)
				n++
			}
		case reflect.String:
			if v.CanSet() {
				v.SetString(v.String() + "!scr")
				n++
			}
		case reflect.Bool:
			if v.CanSet() {
				v.SetBool(!v.Bool())
				n++
			}
		}
	}
	walk(reflect.ValueOf(root))
	return
}

func sharedAddr(a, b map[uintptr]string) (string, bool) {
	for p, pa := range a {
		if pb, ok := b[p]; ok {
			return pa + " ~ " + pb, true
		}
	}
	return "", false
}

func kindOfPath(p string) string {
	// closed vocabulary for signatures: the field name at the start of the path
	for i := 1; i < len(p); i++ {
		if p[i] == '.' || p[i] == '[' || p[i] == '{' || p[i] == ' ' {
			return p[1:i]
		}
	}
	if len(p) > 1 {
		return p[1:]
	}
	return "-"
}

func runC14(k int, rng *Rng) CaseResult {
	richShapes = true
	defer func() { richShapes = false }()
	cfg := genConfig(rng, GenOpts{NoUnique: true, CaseBias: 0.1})
	cfg.Cache = rng.P(0.6)
	clockNewCase(clockModeFor(cfg))
	installHooks(stdHooks())
	w := NewWorld("C14", rng, cfg, caseDir(k, "c14"))
	defer w.Cleanup()
	if !w.OpenCreate() {
		return w.finish(nil, false, nil)
	}
	containers := 0
	var shapes []string
	rounds := 2 + rng.Intn(3)
	for round := 0; round < rounds && !w.failed(); round++ {
		w.step++
		x := genRec(rng, round, RecOpts{ValidOnly: true})
		genContainers(rng, x) // rich shapes
		if len(addrs(x)) > 0 {
			containers++
		}
		viaBatch := rng.P(0.3)
		var err error
		if viaBatch {
			y := genRec(rng, 100+round, RecOpts{ValidOnly: true})
			w.call("InsertOrUpdateMany", func() { _, err = w.db.InsertOrUpdateMany(x, y) })
		} else {
			w.call("InsertOrUpdate", func() { err = w.db.InsertOrUpdate(x) })
		}
		if w.failed() {
			break
		}
		if err != nil {
			w.fail("insert-error", "InsertOrUpdate", "-", err.Error())
			break
		}
		u := x.UUID()
		snap := canonJSON(x) // what was accepted
		shapes = append(shapes, fmt.Sprintf("%d reachable containers", len(addrs(x))))
		inAddrs := addrs(x)
		w.logf("stored %s, scrambling the caller's object (%d mutations)", short(u), scramble(x))
		api := "InsertOrUpdate->"
		if viaBatch {
			api = "InsertOrUpdateMany->"
		}
		read := func(how int) (*Rec, string) {
			var o sod.Object
			var e error
			name := []string{"Get", "GetByUUID", "All", "Search.Collect", "AssignAll"}[how]
			w.call(name, func() {
				switch how {
				case 0:
					in := &Rec{}
					in.Initialize(u)
					o, e = w.db.Get(in)
				case 1:
					o, e = w.db.GetByUUID(&Rec{}, u)
				case 2:
					var all []sod.Object
					all, e = w.db.All(&Rec{})
					for _, a := range all {
						if a.UUID() == u {
							o = a
						}
					}
				case 3:
					var res []sod.Object
					res, e = w.db.Search(&Rec{}, "Tag", "=", round).Collect()
					for _, a := range res {
						if a.UUID() == u {
							o = a
						}
					}
				case 4:
					var all []*Rec
					e = w.db.AssignAll(&Rec{}, &all)
					for _, a := range all {
						if a.UUID() == u {
							o = a
						}
					}
				}
			})
			if e != nil || o == nil {
				if !w.failed() {
					w.fail("read-error", name, "-", fmt.Sprintf("%v", e))
				}
				return nil, name
			}
			r, _ := o.(*Rec)
			return r, name
		}
		// reads that miss the cache (fresh handle) take another path than cache hits
		if rng.P(0.4) {
			w.Reopen(rng.P(0.3))
			if w.failed() {
				break
			}
		}
		r1, n1 := read(rng.Intn(5))
		if r1 == nil {
			break
		}
		stats.Count("isolation_checks", 1)
		if g := canonJSON(r1); g != snap {
			w.fail("caller-mutation-visible", api+n1, kindOfDiff(g, snap), fmt.Sprintf("mutating the inserted object afterwards changed what is read\n read %s\n was  %s", g, snap))
			break
		}
		if p, shared := sharedAddr(inAddrs, addrs(r1)); shared {
			w.fail("alias", api+n1, kindOfPath(p), "the read object shares memory with the inserted object: "+p)
			break
		}
		// mutate what a read returned; later reads must not change
		a1 := addrs(r1)
		scramble(r1)
		// appending to a returned slice must stay private as well
		r1.Tags = append(r1.Tags, "appended-by-reader-1")
		r1.Subs = append(r1.Subs, &Sub{V: 4242})
		r2, n2 := read(rng.Intn(5))
		if r2 == nil {
			break
		}
		// what r2's own appends would expose: the element right after its length
		probeTags, probeSubs := "", -1
		if cap(r2.Tags) > len(r2.Tags) {
			probeTags = r2.Tags[:len(r2.Tags)+1][len(r2.Tags)]
		}
		if cap(r2.Subs) > len(r2.Subs) {
			if e := r2.Subs[:len(r2.Subs)+1][len(r2.Subs)]; e != nil {
				probeSubs = e.V
			}
		}
		if probeTags == "appended-by-reader-1" || probeTags == "hidden!scr" || probeSubs == 4242 {
			w.fail("alias", n1+"->"+n2, "spare-capacity", fmt.Sprintf("the spare capacity of a slice returned by a read holds what another holder wrote there (Tags:%q Subs.V:%d): the backing array is shared", probeTags, probeSubs))
			break
		}
		if g := canonJSON(r2); g != snap {
			w.fail("reader-mutation-visible", n1+"->"+n2, kindOfDiff(g, snap), fmt.Sprintf("mutating a returned object changed a later read\n read %s\n was  %s", g, snap))
			break
		}
		if p, shared := sharedAddr(a1, addrs(r2)); shared {
			w.fail("alias", n1+"->"+n2, kindOfPath(p), "two reads share memory: "+p)
			break
		}
		// a cached read equals a round trip through the file
		if cfg.Async != 0 {
			w.call("FlushAllAndCommit", func() { err = w.db.FlushAllAndCommit(&Rec{}) })
		}
		d := readDisk(w.collDir(), cfg.Ext, cfg.Compress)
		if raw, ok := d.Objects[u]; ok {
			if y, e := decodeRec(u, raw); e == nil {
				r3, n3 := read(rng.Intn(2))
				if r3 == nil {
					break
				}
				if g, f := canonJSON(r3), canonJSON(y); g != f {
					w.fail("cached-read-differs-from-file", n3, kindOfDiff(g, f), fmt.Sprintf("read  %s\n file  %s", g, f))
					break
				}
			}
		} else if !w.failed() {
			w.fail("read-error", "file", "-", "no object file after a completed write")
			break
		}
		// address sets are only comparable while all the objects are alive
		// (a collected object's memory can be reused by a later read)
		runtime.KeepAlive(x)
		runtime.KeepAlive(r1)
		runtime.KeepAlive(r2)
		runtime.KeepAlive(pins)
		pins = nil
	}
	if !w.failed() && k%4 == 1 {
		stats.Count("repair_shape_checks", int64(w.repairShapes()))
	}
	if !w.failed() && k%3 == 0 {
		stats.Count("embedded_shape_checks", int64(w.embScenario()))
	}
	var sample interface{}
	if k < sampleMax {
		sample = map[string]interface{}{"config": cfg.String(), "rounds": rounds, "shapes": shapes}
	}
	return w.finish(append(shapes, fmt.Sprint(k%50)), containers > 0, sample)
}

// EmbRec: containers promoted from an embedded struct of a non exported type. encoding/json
// stores them like any other field; they are not described (not indexable) but they are part of
// the object. Own collection, not in the golden corpus.
type embBase struct {
	Tags []string
	M    map[string]int
	P    *int
	Arr  [2]*int
	In   struct{ L []int }
}

type EmbRec struct {
	sod.Item
	embBase
	A int
}

func (w *World) embScenario() (n int) {
	r := w.rng
	sch := sod.DefaultSchema
	sch.Extension = w.cfg.Ext
	sch.Cache, sch.Compress = w.cfg.Cache, w.cfg.Compress
	if w.cfg.Async != 0 {
		sch.Asynchrone(w.cfg.Threshold, w.cfg.Timeout)
	}
	var err error
	if w.call("Create(EmbRec)", func() { err = w.db.Create(&EmbRec{}, sch) }) {
		return
	}
	if err != nil {
		w.fail("create-failed", "Create(EmbRec)", "-", err.Error())
		return
	}
	clockSettle()
	for round := 0; round < 2 && !w.failed(); round++ {
		w.step++
		v1, v2 := 7+round, 9
		x := &EmbRec{A: round}
		x.Tags = append(make([]string, 0, 2+r.Intn(3)), "t0", "t1")
		x.M = map[string]int{"a": 1, "b": 2}
		x.P = &v1
		x.Arr = [2]*int{&v2, nil}
		x.In.L = []int{1, 2, 3}
		if w.call("InsertOrUpdate(EmbRec)", func() { err = w.db.InsertOrUpdate(x) }) {
			return
		}
		if err != nil {
			w.fail("insert-error", "InsertOrUpdate", "-", err.Error())
			return
		}
		u := x.UUID()
		snap := canonJSON(x)
		inAddrs := addrs(x)
		w.logf("stored EmbRec %s (%d reachable containers), scrambling the caller's object (%d mutations)", short(u), len(inAddrs), scramble(x))
		read := func() *EmbRec {
			var o sod.Object
			var e error
			how := r.Intn(3)
			w.call("read(EmbRec)", func() {
				switch how {
				case 0:
					in := &EmbRec{}
					in.Initialize(u)
					o, e = w.db.Get(in)
				case 1:
					o, e = w.db.GetByUUID(&EmbRec{}, u)
				default:
					var all []sod.Object
					all, e = w.db.All(&EmbRec{})
					for _, a := range all {
						if a.UUID() == u {
							o = a
						}
					}
				}
			})
			g, _ := o.(*EmbRec)
			if (e != nil || g == nil) && !w.failed() {
				w.fail("read-error", "read(EmbRec)", "-", fmt.Sprintf("%v", e))
			}
			return g
		}
		if r.P(0.3) {
			w.Reopen(false)
			if w.failed() {
				return
			}
		}
		r1 := read()
		if r1 == nil {
			return
		}
		n++
		if g := canonJSON(r1); g != snap {
			w.fail("caller-mutation-visible", "InsertOrUpdate->read", "embedded", fmt.Sprintf("mutating the inserted object afterwards changed what is read\n read %s\n was  %s", g, snap))
			return
		}
		if p, shared := sharedAddr(inAddrs, addrs(r1)); shared {
			w.fail("alias", "InsertOrUpdate->read", "embedded", "the read object shares memory with the inserted object: "+p)
			return
		}
		a1 := addrs(r1)
		scramble(r1)
		r2 := read()
		if r2 == nil {
			return
		}
		n++
		if g := canonJSON(r2); g != snap {
			w.fail("reader-mutation-visible", "read->read", "embedded", fmt.Sprintf("mutating a returned object changed a later read\n read %s\n was  %s", g, snap))
			return
		}
		if p, shared := sharedAddr(a1, addrs(r2)); shared {
			w.fail("alias", "read->read", "embedded", "two reads share memory: "+p)
			return
		}
		runtime.KeepAlive(x)
		runtime.KeepAlive(r1)
		runtime.KeepAlive(r2)
		runtime.KeepAlive(pins)
		pins = nil
	}
	return
}

// kindOfDiff names the first top-level JSON field on which two canonical
// encodings differ (closed vocabulary: field names of Rec).
func kindOfDiff(a, b string) string {
	var ma, mb map[string]json.RawMessage
	if json.Unmarshal([]byte(a), &ma) != nil || json.Unmarshal([]byte(b), &mb) != nil {
		return "-"
	}
	keys := make([]string, 0, len(ma))
	for k := range ma {
		keys = append(keys, k)
	}
	sort.Strings(keys)
	for _, k := range keys {
		if string(ma[k]) != string(mb[k]) {
			return k
		}
	}
	return "-"
}

// repairShapes: the index is lost, Repair re-indexes every object file (and, when caching is on,
// serves them from the cache afterwards): each object read through the handle still equals a round
// trip through its own file - no container, no absent field is shared between two stored objects.
func (w *World) repairShapes() (n int) {
	cfg := w.cfg
	var err error
	if w.call("Close", func() { err = w.db.Close() }) {
		return
	}
	if err != nil {
		w.fail("close-failed", "Close", "-", err.Error())
		return
	}
	clockSettle()
	d := readDisk(w.collDir(), cfg.Ext, cfg.Compress)
	if len(d.Objects) < 2 {
		w.Open()
		return
	}
	os.Remove(filepath.Join(w.collDir(), "schema.json"))
	w.Open()
	w.call("Create", func() { err = w.db.Create(&Rec{}, schemaFor(cfg, &Rec{})) })
	if err != nil && !sod.IsIndexCorrupted(err) {
		w.fail("create-failed", "Create(schema removed)", "-", err.Error())
		return
	}
	w.call("Repair", func() { err = w.db.Repair(&Rec{}) })
	if err != nil {
		w.fail("repair-error", "Repair", "rmschema", err.Error())
		return
	}
	var us []string
	for u := range d.Objects {
		us = append(us, u)
	}
	sort.Strings(us)
	for pass := 0; pass < 2; pass++ {
		for _, u := range us {
			y, e := decodeRec(u, d.Objects[u])
			if e != nil {
				continue
			}
			var o sod.Object
			name := []string{"GetByUUID", "Search.Collect"}[pass]
			w.call(name, func() {
				if pass == 0 {
					o, e = w.db.GetByUUID(&Rec{}, u)
					return
				}
				var res []sod.Object
				res, e = w.db.Search(&Rec{}, "Tag", "=", y.Tag).Collect()
				for _, a := range res {
					if a.UUID() == u {
						o = a
					}
				}
			})
			if w.failed() {
				return
			}
			r, ok := o.(*Rec)
			if e != nil || !ok || r == nil {
				w.fail("read-error", name, "after-repair", fmt.Sprintf("%s: %v", short(u), e))
				return
			}
			if g, f := canonJSON(r), canonJSON(y); g != f {
				w.fail("read-after-repair-differs-from-file", name, kindOfDiff(g, f), fmt.Sprintf("read  %s\n file  %s", g, f))
				return
			}
			n++
		}
	}
	return
}
