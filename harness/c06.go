package main

import (
	"errors"
	"fmt"
	"math"
	"os"
	"path/filepath"
	"regexp"
	"strings"
	"syscall"

	"github.com/0xrawsec/sod"
)

// C06 — a rejected or failed write leaves no trace (DESIGN 4/C06).

func c06Rejections(t string) int {
	if t == "thorough" {
		return 6000
	}
	return 300
}

func init() {
	drivers["C06"] = &driver{cases: func(t string) int {
		if t == "thorough" {
			return c06Rejections(t) + 300
		}
		return c06Rejections(t) + 24
	}, run: func(k int, rng *Rng) CaseResult {
		if k < c06Rejections(tier) {
			return runC06Reject(k, rng)
		}
		return runC06Faults(k, rng)
	}}
}

// badJSON fails to serialise.
type badJSON struct{ V int }

func (b badJSON) MarshalJSON() ([]byte, error) { return nil, errors.New("harness: cannot marshal") }

// Uncreated is a type for which no collection is ever created.
type Uncreated struct {
	sod.Item
	A int `sod:"index"`
}

func makeUnserialisable(r *Rng, x *Rec) string {
	switch r.Intn(5) {
	case 0:
		x.F64 = math.NaN()
		return "NaN-in-F64"
	case 1:
		x.F64 = math.Inf(1)
		return "Inf-in-F64"
	case 2:
		if x.N == nil {
			x.N = &Nested{}
		}
		x.N.In.F = math.Inf(-1)
		return "Inf-in-nested"
	case 3:
		x.F32 = float32(math.NaN())
		return "NaN-in-F32"
	default:
		x.Any = badJSON{1}
		return "failing-MarshalJSON"
	}
}

func (w *World) obsAround(target []string) map[string]string {
	per := append([]string(nil), w.m.Live()...)
	for _, u := range target {
		if u != "" {
			per = append(per, u)
		}
	}
	return w.Observe(ObsOpts{Queries: w.fixedQueries, Ordered: true, Index: true, PerUUID: per})
}

// ---- part 1: rejections ----

func runC06Reject(k int, rng *Rng) CaseResult {
	cfg := genConfig(rng, GenOpts{UniqueBias: 0.35})
	if k%4 == 0 {
		// a unique field with a case constraint: members of one batch that differ as given and are
		// equal once canonicalised (histories aim at them) refuse the whole batch
		c := cfg.Fields["KS"]
		c.Index, c.Unique = true, true
		if !c.Upper && !c.Lower {
			if rng.Bool() {
				c.Upper = true
			} else {
				c.Lower = true
			}
		}
		cfg.Fields["KS"] = c
	}
	if k%3 == 0 {
		cfg.Cache = true // the rejected value is staged in the cache before the constraint check
	}
	clockNewCase(clockModeFor(cfg))
	installHooks(stdHooks())
	w := NewWorld("C06", rng, cfg, caseDir(k, "c06"))
	w.predict, w.storeWant = true, false
	defer w.Cleanup()
	if !w.OpenCreate() {
		return w.finish(nil, false, nil)
	}
	rejections := 0
	kinds := map[string]bool{}
	o := HistOpts{MaxObjs: 10, BiasUnique: true, Rec: RecOpts{InvalidP: 0.2, Simple: true},
		Mix: Mix{Ins: 30, Upd: 35, Noop: 2, Del: 6, Many: 20, Bulk: 5, Tick: 2}}
	steps := 8 + rng.Intn(12)
	for i := 0; i < steps && !w.failed(); i++ {
		w.fixedQueries = w.evaluable(w.sampleQueries(12))
		var before map[string]string
		var treeBefore string
		var treeFiles map[string]string
		snap := func() {
			before = w.obsAround(nil)
			if cfg.Async == 0 {
				treeBefore, treeFiles = treeHash(w.root)
			}
		}
		verify := func(api, kind string, targets []string) {
			if w.failed() {
				return
			}
			rejections++
			kinds[kind] = true
			stats.SetAdd("rejection_kinds", kind+"/"+api)
			// the rejected objects are not readable by the uuid they were given
			for _, u := range targets {
				if _, stored := w.m.objs[u]; u != "" && !stored {
					w.checkAbsent(u)
				}
			}
			after := w.obsAround(nil)
			if d := diffObs(before, after, "before", "after"); d != "" {
				w.fail("rejected-write-visible", api+"("+kind+")", "read="+diffKeyClass(before, after), d)
				return
			}
			if cfg.Async == 0 {
				if h, files := treeHash(w.root); h != treeBefore {
					w.fail("rejected-write-changed-files", api+"("+kind+")", "-", diffTree(treeFiles, files))
					return
				}
			}
			w.Invariants("index", "cache", "pending")
		}
		switch x := rng.Intn(100); {
		case x < 12: // unserialisable value, single entry point
			w.step++
			snap()
			var r *Rec
			if live := w.m.Live(); len(live) > 0 && rng.Bool() {
				r = w.callerCopy(pick(rng, live))
			} else {
				r = genRec(rng, w.m.tags, RecOpts{ValidOnly: true, Simple: true})
				w.m.tags++
			}
			what := makeUnserialisable(rng, r)
			var err error
			w.logf("InsertOrUpdate(%s) %s", what, recBrief(r))
			w.call("InsertOrUpdate", func() { err = w.db.InsertOrUpdate(r) })
			if !w.failed() && err == nil {
				w.fail("unserialisable-accepted", "InsertOrUpdate", what, "a value that cannot be serialised was accepted")
			}
			w.abs("unserialisable:" + what)
			verify("InsertOrUpdate", "unserialisable", []string{r.UUID()})
		case x < 20: // unserialisable value inside a batch
			w.step++
			snap()
			var batch []sod.Object
			var targets []string
			n := 1 + rng.Intn(4)
			bad := rng.Intn(n)
			what := ""
			for j := 0; j < n; j++ {
				r := genRec(rng, w.m.tags, RecOpts{ValidOnly: true, Simple: true})
				w.m.tags++
				r.K, r.KS = 1000+w.m.tags, fmt.Sprint("u", w.m.tags) // no uniqueness conflict
				r.U8, r.I64, r.F64, r.X = uint8(100+j), int64(5000+w.m.tags), float64(5000+w.m.tags), 5000+w.m.tags
				r.T = r.T.AddDate(0, 0, w.m.tags)
				if j == bad {
					what = makeUnserialisable(rng, r)
				}
				batch = append(batch, r)
			}
			var err error
			var cnt int
			w.logf("InsertOrUpdateMany(%d objects, member %d %s)", n, bad, what)
			w.call("InsertOrUpdateMany", func() { cnt, err = w.db.InsertOrUpdateMany(batch...) })
			for _, b := range batch {
				targets = append(targets, b.UUID())
			}
			if !w.failed() && (err == nil || cnt != 0) {
				w.fail("unserialisable-accepted", "InsertOrUpdateMany", what, fmt.Sprintf("n=%d err=%v", cnt, err))
			}
			w.abs("unserialisable-batch:" + what)
			verify("InsertOrUpdateMany", "unserialisable", targets)
		case x < 26: // unknown schema: no collection was created for this type
			w.step++
			snap()
			var err error
			u := &Uncreated{A: 1}
			w.call("InsertOrUpdate(Uncreated)", func() { err = w.db.InsertOrUpdate(u) })
			if !w.failed() && err == nil {
				w.fail("unknown-schema-accepted", "InsertOrUpdate", "-", "insert into a collection that was never created succeeded")
			}
			w.call("InsertOrUpdateMany(Uncreated)", func() { _, err = w.db.InsertOrUpdateMany(&Uncreated{A: 2}, &Uncreated{A: 3}) })
			if !w.failed() && err == nil {
				w.fail("unknown-schema-accepted", "InsertOrUpdateMany", "-", "batch insert into a collection that was never created succeeded")
			}
			if _, e := os.Stat(w.root + "/main.Uncreated"); e == nil && !w.failed() {
				w.fail("rejected-write-changed-files", "InsertOrUpdate(unknown-schema)", "-", "a directory was created for a refused insert")
			}
			w.abs("unknown-schema")
			verify("InsertOrUpdate", "unknown-schema", nil)
		default:
			snap()
			kind := w.Step(o)
			var targets []string
			rejected := ""
			for _, pr := range w.lastPut {
				if pr.Class != "nil" {
					rejected = pr.Class
					targets = append(targets, pr.X.UUID())
				}
			}
			// InsertOrUpdateBulk legitimately keeps the chunks stored before
			// the failing one (C07): only state == model is demanded there
			if rejected != "" && !w.failed() && kind != "bulk" {
				verify(apiOfKind(kind), rejected, targets)
			}
		}
		if !w.failed() {
			w.ReadSweep()
		}
	}
	// and nothing of the rejected writes survives a restart
	if !w.failed() {
		w.Reopen(false)
		w.ReadSweep()
		w.SearchSweep(25)
	}
	var sample interface{}
	if k < sampleMax {
		ks := []string{}
		for x := range kinds {
			ks = append(ks, x)
		}
		sample = map[string]interface{}{"config": cfg.String(), "ops": w.absOps, "rejected_calls": rejections, "rejection_kinds": ks}
	}
	return w.finish(w.absOps, rejections >= 1 && w.accepts >= 2, sample)
}

// ---- part 2: single storage faults ----

type faultOp struct {
	kind string
	run  func(w *World) (int, error) // performs exactly the API call(s) of the step; n = reported count (batches)
	// apply the intended effect on a model (when the call succeeds)
	apply func(m *Model)
	// applyN: effect of a batch of which only the first n members were stored
	applyN func(m *Model, n int)
}

// nextFaultOp draws the i-th operation of the fault history (deterministic
// from rng and the model, so every re-execution repeats it).
func nextFaultOp(w *World, rng *Rng, forced string) faultOp {
	live := w.m.Live()
	x := rng.Intn(100)
	switch forced { // directed scenarios (DESIGN 3.5)
	case "ins":
		x = 0
	case "upd":
		x = 40
	case "many":
		x = 80
	}
	switch {
	case x < 30 || len(live) == 0:
		r := genRec(rng, w.m.tags, RecOpts{ValidOnly: true, Simple: true})
		w.m.tags++
		r.K, r.KS, r.U8 = 100+w.m.tags, fmt.Sprint("f", w.m.tags), uint8(w.m.tags)
		r.I64, r.F64, r.X = int64(100+w.m.tags), float64(100+w.m.tags), 100+w.m.tags
		r.T = r.T.AddDate(0, 0, w.m.tags)
		want := w.cfg.applyTransforms(r)
		return faultOp{"ins", func(w *World) (int, error) { return 0, w.db.InsertOrUpdate(r) }, func(m *Model) {
			if r.UUID() != "" {
				want.Initialize(r.UUID())
				m.Put(want)
			}
		}, nil}
	case x < 58:
		u := pick(rng, live)
		r := w.callerCopy(u)
		r.I, r.S, r.I8 = r.I+1+rng.Intn(3), pick(rng, domS), pick(rng, domI8)
		want := w.cfg.applyTransforms(r)
		return faultOp{"upd", func(w *World) (int, error) { return 0, w.db.InsertOrUpdate(r) }, func(m *Model) { m.Put(want) }, nil}
	case x < 72:
		u := pick(rng, live)
		return faultOp{"del", func(w *World) (int, error) { d := &Rec{}; d.Initialize(u); return 0, w.db.Delete(d) }, func(m *Model) { m.Delete(u) }, nil}
	case x < 86:
		u := pick(rng, live)
		r1 := w.callerCopy(u)
		r1.I += 5
		r2 := genRec(rng, w.m.tags, RecOpts{ValidOnly: true, Simple: true})
		w.m.tags++
		r2.K, r2.KS, r2.U8 = 100+w.m.tags, fmt.Sprint("f", w.m.tags), uint8(w.m.tags)
		r2.I64, r2.F64, r2.X = int64(100+w.m.tags), float64(100+w.m.tags), 100+w.m.tags
		r2.T = r2.T.AddDate(0, 0, w.m.tags)
		w1, w2 := w.cfg.applyTransforms(r1), w.cfg.applyTransforms(r2)
		return faultOp{"many", func(w *World) (int, error) { return w.db.InsertOrUpdateMany(r1, r2) }, func(m *Model) {
			m.Put(w1)
			if r2.UUID() != "" {
				w2.Initialize(r2.UUID())
				m.Put(w2)
			}
		}, func(m *Model, n int) {
			// the first n members in order
			if n >= 1 {
				m.Put(w1)
			}
			if n >= 2 && r2.UUID() != "" {
				w2.Initialize(r2.UUID())
				m.Put(w2)
			}
		}}
	case x < 92:
		return faultOp{"flush", func(w *World) (int, error) { return 0, w.db.FlushAllAndCommit(&Rec{}) }, func(m *Model) {}, nil}
	case x < 96:
		return faultOp{"create", func(w *World) (int, error) { return 0, w.db.Create(&Rec{}, schemaFor(w.cfg, &Rec{})) }, func(m *Model) {}, nil}
	default:
		return faultOp{"close", func(w *World) (int, error) {
			err := w.db.Close()
			if err == nil {
				w.Open()
			} // else: the caller keeps the handle and will try to Close again
			return 0, err
		}, func(m *Model) {}, nil}
	}
}

// stateIs: does the handle's observable state equal the model m?
func (w *World) stateIs(m *Model) (bool, string) {
	saved := w.m
	w.m = m
	ok, v := w.try(func() {
		w.ReadSweep()
		w.SearchSweep(20)
		w.IndexedEqualitySweep()
	})
	w.m = saved
	if ok {
		return true, ""
	}
	return false, v.Clause + "/" + v.Api + ": " + first(v.Detail, 400)
}

func runC06Faults(k int, rng *Rng) CaseResult {
	cfg := genConfig(rng, GenOpts{UniqueBias: 0.1})
	if cfg.Async == 2 {
		cfg.Async = 1 // flusher frozen: only foreground calls touch the disk
	}
	steps := 3 + rng.Intn(4)
	// the first two fault cases are fixed histories that visit the windows
	// of the listed findings at every seed
	var script []string
	switch k - c06Rejections(tier) {
	case 0:
		script = []string{"ins", "upd"}
	case 1:
		script = []string{"ins", "many"}
	}
	if script != nil {
		cfg = Config{Ext: ".json", Fields: map[string]Cons{"I": {Index: true}, "S": {Index: true}, "I8": {Index: true}, "K": {Index: true, Unique: true}}}
		steps = len(script)
	}
	histSeed := rng.Fork()
	errnos := []syscall.Errno{syscall.EIO, syscall.ENOSPC}
	res := CaseResult{Config: cfg.String(), Steps: steps}
	var absOps []string
	injections, outcomes := 0, map[string]int{}
	var firstFaults []string
	seenSig := map[string]bool{}
	for i := 0; i < steps; i++ {
		for j := 1; ; j++ {
			// ---- re-execute the prefix on a fresh directory, fault at (i, j) ----
			root := caseDir(k, fmt.Sprintf("c06f-%d-%d", i, j))
			clockNewCase(clockModeFor(cfg))
			fsReset("inject", root)
			installHooks(fsHooks(false))
			w := NewWorld("C06", &Rng{s: histSeed.s}, cfg, root)
			w.storeWant = false
			ok := w.OpenCreate()
			var op faultOp
			var before, after *Model
			var callErr error
			var callN int
			var partial *Model
			var injected *fsEventRec
			panicked := false
			ops := []string{}
			for s := 0; ok && s <= i && !w.failed(); s++ {
				forced := ""
				if script != nil {
					forced = script[s]
				}
				op = nextFaultOp(w, w.rng, forced)
				ops = append(ops, op.kind)
				w.step++
				if s < i {
					var e error
					w.call(op.kind, func() { _, e = op.run(w) })
					if e != nil {
						w.fail("harness-prefix-error", op.kind, "-", e.Error())
						break
					}
					op.apply(w.m)
					continue
				}
				before = w.m.Clone()
				errno := errnos[(i+j)%2]
				fsArm(j, errno, j%3 == 0)
				w.logf("%s with fault #%d (%v)", op.kind, j, errno)
				w.noPanicViolation = true
				panicked = w.call(op.kind, func() { callN, callErr = op.run(w) })
				w.noPanicViolation = false
				injected, _ = fsDisarm()
				after = w.m.Clone()
				op.apply(after)
				if callErr != nil && callN > 0 && op.applyN != nil {
					// a batch that reports how many objects it stored before the fault
					partial = w.m.Clone()
					op.applyN(partial, callN)
				}
			}
			absOps = ops
			if !ok || w.failed() {
				res.Violations = append(res.Violations, w.viol...)
				w.Cleanup()
				res.Inconclusive = "harness: prefix failed"
				goto done
			}
			if injected == nil {
				// step i has fewer than j FS events: next step
				w.Cleanup()
				break
			}
			injections++
			fsReset("", "")
			installHooks(stdHooks())
			site := faultClass(injected.Op, injected.Path)
			if len(firstFaults) < 10 {
				firstFaults = append(firstFaults, fmt.Sprintf("step %d (%s) event %d: %s -> err=%v", i, op.kind, j, site, callErr != nil))
			}
			add := func(clause, detail string) {
				sig := fmt.Sprintf("C06|%s|%s|%s|fault=%s", clause, apiOfKind(op.kind), cfgMode(cfg), site)
				if op.kind == "update-window" && (clause == "diverges-silently" || clause == "repair-disagrees-with-files") {
					// one defect, many fault sites: identified by what the
					// independent decoder sees (index tuple != value in the file)
					sig = fmt.Sprintf("C06|stale-index|update-window|%s|-", cfgMode(cfg))
				}
				if !seenSig[sig] {
					seenSig[sig] = true
					res.Violations = append(res.Violations, Violation{Sig: sig, Clause: clause, Api: apiOfKind(op.kind), Step: i,
						Detail: fmt.Sprintf("history %v, fault on FS event #%d of the last call (%s of %s), call returned %v, configuration %s\n%s", ops, j, site, injected.Path, callErr, cfg.String(), detail), Trace: w.trace})
				}
			}
			outcome := c06Judge(w, before, after, partial, callErr, panicked, add, &op)
			outcomes[outcome]++
			stats.Count("fault_outcome_"+outcome, 1)
			w.Cleanup()
		}
	}
done:
	stats.Count("fault_runs", int64(injections))
	res.Nontrivial = injections >= 5
	res.Fingerprint = fingerprint(append([]string{cfg.String()}, absOps...)...)
	if k < c06Rejections(tier)+3 {
		res.Sample = map[string]interface{}{"config": cfg.String(), "ops": absOps, "single_faults_injected": injections, "outcomes": outcomes, "first_faults": firstFaults}
	}
	return res
}

func cfgMode(c Config) string {
	if c.Async != 0 {
		return "async"
	}
	return "sync"
}

// c06Judge evaluates the state after a call during which one FS event failed.
// faultClass reduces the faulty FS event to what failed (closed vocabulary).
func faultClass(op, path string) string {
	base := filepath.Base(path)
	switch {
	case strings.Contains(base, "schema.json"):
		return "schema-commit" // schema.json or a temporary file of it
	case len(base) >= 36 && uuidInName.MatchString(strings.ToLower(base)):
		return "object-write"
	}
	return "directory(" + op + ")"
}

var uuidInName = regexp.MustCompile(`[0-9a-f]{8}-[0-9a-f]{4}-[0-9a-f]{4}-[0-9a-f]{4}-[0-9a-f]{12}`)

func c06Judge(w *World, before, after, partial *Model, callErr error, panicked bool, add func(clause, detail string), op *faultOp) string {
	if panicked {
		add("panic-on-storage-fault", "the call panicked")
		return "panic"
	}
	if callErr == nil {
		// acknowledged: must hold live and after a restart
		if ok, why := w.stateIs(after); !ok {
			add("acknowledged-but-lost", "the call returned nil but the live state is not the state after the call: "+why)
			return "violation"
		}
		w.Reopen(false)
		if w.failed() {
			w.viol = nil
			return "reopen-failed-after-ack"
		}
		if ok, why := w.stateIs(after); !ok {
			add("acknowledged-but-lost", "the call returned nil but after close/reopen the state is not the state after the call: "+why)
			return "violation"
		}
		return "acknowledged"
	}
	// an error was returned
	liveBefore, whyLive := w.stateIs(before)
	var liveCtl error
	w.call("Control", func() { liveCtl = w.db.Control() })
	if !liveBefore && !sod.IsIndexCorrupted(liveCtl) {
		// the live handle changed although the call failed: acceptable only
		// when the call was in fact applied (entirely, or the first n members
		// of a batch that says so); anything else diverges silently
		okA, _ := w.stateIs(after)
		okP := false
		if partial != nil {
			okP, _ = w.stateIs(partial)
		}
		if !okA && !okP {
			add("live-handle-diverges-silently", "the call returned an error, Control() on the same handle reports nothing, but reads/searches on it are neither the state before nor after the call: "+whyLive)
			return "violation"
		}
	}
	// second handle on the directory. In synchronous mode the faulty handle
	// is abandoned (its Close could itself repair or damage things); in
	// asynchronous mode accepted writes only reach the disk through Close.
	if w.cfg.Async != 0 {
		w.call("Close", func() { w.db.Close() })
		clockSettle()
	}
	w.Open()
	var loadErr error
	w.call("Schema", func() { _, loadErr = w.db.Schema(&Rec{}) })
	clockSettle()
	if loadErr != nil && !sod.IsIndexCorrupted(loadErr) {
		if errors.Is(loadErr, os.ErrNotExist) && len(before.objs) == 0 {
			return "nothing-created"
		}
		add("unreadable-after-fault", fmt.Sprintf("reopening fails with %v", loadErr))
		return "violation"
	}
	reopenedBefore := false
	if loadErr == nil {
		reopenedBefore, _ = w.stateIs(before)
	}
	if liveBefore && reopenedBefore {
		return "no-trace"
	}
	if partial != nil && loadErr == nil {
		// a batch interrupted by the fault that reported n > 0: the caller
		// was told exactly what was stored, which is not a silent divergence
		if ok, _ := w.stateIs(partial); ok {
			return "partial-batch-with-accurate-count"
		}
	}
	// changed: must be reported and repairable
	reported := sod.IsIndexCorrupted(liveCtl) || sod.IsIndexCorrupted(loadErr)
	if !reported {
		var ctl error
		w.call("Control", func() { ctl = w.db.Control() })
		reported = sod.IsIndexCorrupted(ctl)
	}
	// what do the files say?
	d := readDisk(w.collDir(), w.cfg.Ext, w.cfg.Compress)
	files := NewModel(w.cfg)
	files.order = append([]string(nil), before.order...)
	for u, raw := range d.Objects {
		if x, err := decodeRec(u, raw); err == nil {
			files.Put(x)
		}
	}
	for u, e := range d.ObjErr {
		add("unreadable-after-fault", fmt.Sprintf("object file %s: %s", short(u), e))
		return "violation"
	}
	if stale := d.staleEntries(files.objs); len(stale) > 0 {
		// the listed finding concerns objects the faulted call was updating; a stale tuple of an
		// object this call leaves alone (synchronous mode: earlier calls have committed) is the
		// trace of an acknowledged call that never committed its index
		if w.cfg.Async == 0 {
			for _, u := range stale {
				b, a := before.objs[u], after.objs[u]
				if b != nil && a != nil && canonJSON(b) == canonJSON(a) {
					add("acknowledged-index-update-lost", fmt.Sprintf("object %s is not changed by the faulted call, yet schema.json indexes it under another value than its file holds", short(u)))
					return "violation"
				}
			}
		}
		op.kind = "update-window"
	}
	if !reported {
		// not reported: then it must at least be consistent with the files
		// and equal to the state before or after the call as a whole
		okB, _ := w.stateIs(before)
		okA, whyA := w.stateIs(after)
		if okB || okA {
			if okA && !liveBefore {
				return "applied-despite-error"
			}
			return "no-trace-after-reopen"
		}
		add("diverges-silently", "the call failed, the state changed, neither Control (live) nor the reopened handle reports corruption, and the reopened state is neither the state before nor after the call: "+whyA)
		return "violation"
	}
	var rerr error
	if w.call("Repair", func() { rerr = w.db.Repair(&Rec{}) }) || rerr != nil {
		add("repair-fails-after-fault", fmt.Sprintf("corruption is reported but Repair fails: %v", rerr))
		return "violation"
	}
	var ctl error
	w.call("Control", func() { ctl = w.db.Control() })
	if ctl != nil {
		add("repair-fails-after-fault", fmt.Sprintf("Control after Repair: %v", ctl))
		return "violation"
	}
	if ok, why := w.stateIs(files); !ok {
		add("repair-disagrees-with-files", why)
		return "violation"
	}
	return "reported-and-repaired"
}
