package main

import (
	"fmt"

	"github.com/0xrawsec/sod"
)

// ---- batches (C07 rule, DESIGN 4/C07 and Appendix A) ----

type batchExpect struct {
	Verdict string // accept | reject | either
	Why     string
}

// expectBatch decides what the statement demands for InsertOrUpdateMany(batch)
// on the current model. foreign: index of a member of another type (-1 none).
func (w *World) expectBatch(batch []*Rec, foreign int) (batchExpect, []*Rec) {
	wants := make([]*Rec, len(batch))
	ident := make([]string, len(batch))
	count := map[string]int{}
	ptrs := map[*Rec]int{}
	for i, x := range batch {
		wants[i] = w.cfg.applyTransforms(x)
		if u := x.UUID(); u != "" {
			ident[i] = "u:" + u
		} else {
			if _, ok := ptrs[x]; !ok {
				ptrs[x] = len(ptrs)
			}
			ident[i] = fmt.Sprintf("p:%d", ptrs[x])
		}
		count[ident[i]]++
	}
	if foreign >= 0 {
		return batchExpect{"reject", "member of another type"}, wants
	}
	for i := range batch {
		if err := validRule(wants[i]); err != nil {
			return batchExpect{"reject", fmt.Sprintf("member %d invalid", i)}, wants
		}
	}
	inBatch := map[string]bool{}
	for _, id := range ident {
		inBatch[id] = true
	}
	ups := w.cfg.uniquePathsSorted()
	either := ""
	for _, p := range ups {
		// against stored objects
		for i := range batch {
			ki, ok := recKey(wants[i], p)
			if !ok {
				continue
			}
			for u, o := range w.m.objs {
				if "u:"+u == ident[i] {
					continue
				}
				if ko, ok := recKey(o, p); ok && cmpKey(ki, ko) == 0 {
					if !inBatch["u:"+u] {
						return batchExpect{"reject", fmt.Sprintf("member %d conflicts with a stored object outside the batch on %s", i, p)}, wants
					}
					either = fmt.Sprintf("member %d takes the pre-batch value of another member on %s", i, p)
				}
			}
		}
		// inside the batch
		for i := range batch {
			for j := i + 1; j < len(batch); j++ {
				if ident[i] == ident[j] {
					continue
				}
				ki, ok1 := recKey(wants[i], p)
				kj, ok2 := recKey(wants[j], p)
				if ok1 && ok2 && cmpKey(ki, kj) == 0 {
					if count[ident[i]] == 1 && count[ident[j]] == 1 {
						return batchExpect{"reject", fmt.Sprintf("members %d and %d share a unique value on %s", i, j, p)}, wants
					}
					either = fmt.Sprintf("members %d/%d share a unique value but one identity repeats", i, j)
				}
			}
		}
	}
	if either != "" {
		return batchExpect{"either", either}, wants
	}
	return batchExpect{"accept", ""}, wants
}

// applyBatch applies an accepted batch to the model in order.
func (w *World) applyBatch(batch []*Rec, wants []*Rec) {
	for i, x := range batch {
		u := x.UUID()
		w.seen[u] = true
		if w.storeWant {
			wants[i].Initialize(u)
			w.m.Put(wants[i])
		} else {
			w.m.Put(x)
		}
	}
}

// Many performs InsertOrUpdateMany. extra, when non-nil, is a foreign-type
// object inserted at position foreignAt.
func (w *World) Many(batch []*Rec, foreignAt int, api string) (n int, err error, ok bool) {
	exp, wants := w.expectBatch(batch, foreignAt)
	objs := make([]sod.Object, 0, len(batch)+1)
	for i, x := range batch {
		if i == foreignAt {
			objs = append(objs, &Other{A: 1, B: "foreign"})
		}
		objs = append(objs, x)
	}
	if foreignAt >= len(batch) {
		objs = append(objs, &Other{A: 1, B: "foreign"})
	}
	before := make([]string, len(batch))
	for i, x := range batch {
		before[i] = x.UUID()
	}
	w.logf("%s(n=%d) expect=%s %s", api, len(objs), exp.Verdict, exp.Why)
	for i, x := range batch {
		w.logf("   [%d] %s", i, recBrief(x))
	}
	if w.call(api, func() { n, err = w.db.InsertOrUpdateMany(objs...) }) {
		return 0, nil, false
	}
	w.logf(" -> n=%d %s", n, errClass(err))
	for i, x := range batch {
		w.lastPut = append(w.lastPut, putRecord{X: x, Want: wants[i], Class: errClass(err), Exp: exp.Verdict, Api: api, Batch: true})
	}
	defer func() {
		done := map[*Rec]bool{}
		for _, x := range batch {
			if !done[x] {
				done[x] = true
				w.hostileScramble(x)
			}
		}
	}()
	if err == nil {
		if n != len(objs) {
			w.fail("batch-count", api, "-", fmt.Sprintf("success but n=%d for %d objects", n, len(objs)))
			return n, err, false
		}
		if w.predict && exp.Verdict == "reject" {
			w.fail("batch-accepted-offender", api, "-", exp.Why)
			return n, err, false
		}
		for i, x := range batch {
			if before[i] != "" && x.UUID() != before[i] {
				w.fail("uuid-changed", api, "-", fmt.Sprintf("member %d", i))
			}
			if x.UUID() == "" {
				w.fail("uuid-malformed", api, "-", fmt.Sprintf("member %d has no uuid after a successful batch", i))
			}
		}
		for i, x := range batch {
			if w.transformsForeign(x, wants[i], "nil") {
				return n, err, false
			}
		}
		w.accepts++
		w.applyBatch(batch, wants)
		return n, err, true
	}
	w.rejects++
	if n != 0 {
		if w.predict {
			w.fail("batch-partial", api, "-", fmt.Sprintf("error %v but n=%d", err, n))
		} else {
			w.incon = "batch partially applied (C07 territory)"
		}
		return n, err, false
	}
	if w.predict && exp.Verdict == "accept" {
		w.fail("batch-rejected-without-offender", api, "-", fmt.Sprintf("%v", err))
		return n, err, false
	}
	return n, err, true
}

// Bulk performs InsertOrUpdateBulk over chunks of csize.
func (w *World) Bulk(batch []*Rec, csize int) {
	// expected chunking (the statement: whole chunks in arrival order, stop at
	// the first failing chunk, n = objects stored)
	ch := make(chan sod.Object)
	go func() {
		defer close(ch)
		for _, x := range batch {
			ch <- x
		}
	}()
	// simulate chunk by chunk on the model, judging each chunk by the C07 rule
	type chunkInfo struct {
		members []*Rec
		exp     batchExpect
		wants   []*Rec
	}
	w.logf("InsertOrUpdateBulk(n=%d, csize=%d)", len(batch), csize)
	for i, x := range batch {
		w.logf("   [%d] %s", i, recBrief(x))
	}
	var n int
	var err error
	if w.call("InsertOrUpdateBulk", func() { n, err = w.db.InsertOrUpdateBulk(ch, csize) }) {
		for range ch {
		}
		return
	}
	for range ch { // drain if the call stopped early
	}
	w.logf(" -> n=%d %s", n, errClass(err))
	defer func() {
		done := map[*Rec]bool{}
		for _, x := range batch {
			if !done[x] {
				done[x] = true
				w.hostileScramble(x)
			}
		}
	}()
	// replay on the model
	stored := 0
	pos := 0
	for pos < len(batch) {
		end := len(batch)
		if csize > 0 && csize < len(batch)-pos {
			end = pos + csize
		}
		members := batch[pos:end]
		exp, wants := w.expectBatch(members, -1)
		for i, x := range members {
			w.lastPut = append(w.lastPut, putRecord{X: x, Want: wants[i], Class: errClass(err), Exp: exp.Verdict, Api: "InsertOrUpdateBulk", Batch: true})
		}
		accepted := false
		switch exp.Verdict {
		case "accept":
			accepted = true
		case "reject":
			accepted = false
		default:
			// either: follow what sod reported
			accepted = n >= stored+len(members)
		}
		if !accepted {
			if err == nil {
				if w.predict {
					w.fail("bulk-accepted-offender", "InsertOrUpdateBulk", "-", exp.Why)
				} else {
					w.incon = "bulk outcome differs from the model (C07 territory)"
				}
				return
			}
			if n != stored {
				w.fail("bulk-count", "InsertOrUpdateBulk", "-", fmt.Sprintf("n=%d but %d objects were in the chunks before the failing one", n, stored))
			}
			return
		}
		w.applyBatch(members, wants)
		stored += len(members)
		pos = end
	}
	if err != nil {
		if w.predict {
			w.fail("bulk-rejected-without-offender", "InsertOrUpdateBulk", "-", err.Error())
		} else {
			w.incon = "bulk outcome differs from the model (C07 territory)"
		}
		return
	}
	if n != stored {
		w.fail("bulk-count", "InsertOrUpdateBulk", "-", fmt.Sprintf("n=%d, model stored %d", n, stored))
	}
}
