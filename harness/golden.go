package main

import (
	"encoding/json"
	"fmt"
	"os"
	"path/filepath"
	"time"

	"github.com/0xrawsec/sod"
)

// ---- golden corpus (C18): directories written by the pinned release ----

type GoldenManifest struct {
	Name     string            `json:"name"`
	Commit   string            `json:"written_by_commit"`
	Config   Config            `json:"config"`
	RecDir   string            `json:"rec_dir"`
	OtherDir string            `json:"other_dir"`
	TagDir   string            `json:"tagged_dir"`
	Recs     map[string]string `json:"recs"`   // uuid -> JSON of the object as stored
	Others   map[string]string `json:"others"` // uuid -> JSON
	Tagged   map[string]string `json:"tagged"` // uuid -> JSON
	Order    []string          `json:"order"`  // rec uuids in creation order
}

func goldenConfigs() []Config {
	base := map[string]Cons{
		"I": {Index: true}, "I8": {Index: true}, "I64": {Index: true}, "U8": {Index: true}, "U64": {Index: true},
		"F32": {Index: true}, "F64": {Index: true}, "S": {Index: true}, "T": {Index: true},
		"Up": {Index: true, Upper: true}, "Lo": {Lower: true}, "K": {Index: true, Unique: true},
		"KS": {Index: true, Unique: true, Lower: true}, "N.A": {Index: true}, "N.In.E": {Index: true, Upper: true},
		"N.P.D": {Index: true}, "Emb.X": {Index: true}, "O": {Index: true},
	}
	cp := func() map[string]Cons {
		m := map[string]Cons{}
		for k, v := range base {
			m[k] = v
		}
		return m
	}
	return []Config{
		{Ext: ".json", Fields: cp()},
		{Ext: ".json", Compress: true, Fields: cp()},
		{Ext: ".json", Cache: true, Fields: cp()},
		{Ext: ".json", Async: 1, Threshold: 50, Timeout: time.Hour, Fields: cp()},
		{Ext: ".v1.dat", LowerName: true, Fields: cp()},
		{Ext: ".obj", Cache: true, Compress: true, Async: 1, Threshold: 3, Timeout: 300 * time.Millisecond, LowerName: true, Fields: cp()},
	}
}

// genGolden writes the corpus with whatever sod build this binary was linked
// against (it must be the pinned release).
func genGolden(outDir, commit string) error {
	for ci, cfg := range goldenConfigs() {
		for content := 0; content < 2; content++ {
			name := fmt.Sprintf("g%d%c", ci, 'a'+content)
			root := filepath.Join(outDir, name, "db")
			os.RemoveAll(filepath.Join(outDir, name))
			rng := NewRng(20260926, "golden", ci*2+content)
			clockNewCase(clockReal)
			w := NewWorld("C18", rng, cfg, root)
			w.storeWant = false
			if !w.OpenCreate() {
				return fmt.Errorf("%s: create failed: %v", name, w.viol)
			}
			if err := w.db.Create(&Other{}, sod.DefaultSchema); err != nil {
				return err
			}
			if err := w.db.Create(&Tagged{}, sod.DefaultSchema); err != nil {
				return err
			}
			man := GoldenManifest{Name: name, Commit: commit, Config: cfg, Recs: map[string]string{}, Others: map[string]string{}, Tagged: map[string]string{}}
			if content == 0 {
				// extremes: one object per interesting magnitude
				for i := 0; i < 9; i++ {
					x := genRec(rng, i, RecOpts{ValidOnly: true})
					x.K = i
					x.KS = fmt.Sprintf("Key%d", i)
					x.I64 = domI64[i%len(domI64)]
					x.U64 = domU64[i%len(domU64)]
					x.T = domT[i%len(domT)]
					x.F64 = domF64[i%len(domF64)]
					x.Chk = 0
					if out := w.Insert(x); out.Err != nil {
						return fmt.Errorf("%s: insert: %v", name, out.Err)
					}
				}
			} else {
				// a history with updates and deletes, ties everywhere
				o := HistOpts{Steps: 90, MaxObjs: 14, Rec: RecOpts{ValidOnly: true},
					Mix: Mix{Ins: 45, Upd: 30, Noop: 3, Del: 6, Many: 8, Bulk: 3}}
				w.Run(o)
			}
			for i := 0; i < 4; i++ {
				o := &Other{A: i % 2, B: fmt.Sprintf("b%d", i), C: float64(i) / 4}
				if err := w.db.InsertOrUpdate(o); err != nil {
					return err
				}
				man.Others[o.UUID()] = canonJSON(o)
			}
			for i := 0; i < 3; i++ {
				t := &Tagged{Name: fmt.Sprintf("Name%d", i), Code: "cOde", Plain: "plain", Num: int64(1<<53 + i), When: domT[2+i%3]}
				t.In.Deep = "DeEp"
				if i > 0 {
					t.In.P = &struct {
						Deeper string `sod:"index,upper"`
					}{"deeper"}
				}
				if err := w.db.InsertOrUpdate(t); err != nil {
					return err
				}
				man.Tagged[t.UUID()] = canonJSON(t)
			}
			if len(w.viol) > 0 {
				return fmt.Errorf("%s: %v", name, w.viol[0])
			}
			if err := w.db.Close(); err != nil {
				return err
			}
			for u, x := range w.m.objs {
				man.Recs[u] = canonJSON(x)
			}
			man.Order = w.m.Live()
			// record directory names as written
			ents, _ := os.ReadDir(root)
			for _, e := range ents {
				switch e.Name() {
				case "main.Rec", goldenLowerName("main.Rec"):
					man.RecDir = e.Name()
				case "main.Other", goldenLowerName("main.Other"):
					man.OtherDir = e.Name()
				case "main.Tagged", goldenLowerName("main.Tagged"):
					man.TagDir = e.Name()
				default:
					return fmt.Errorf("%s: unexpected directory %q", name, e.Name())
				}
			}
			b, _ := json.MarshalIndent(man, "", " ")
			if err := os.WriteFile(filepath.Join(outDir, name, "manifest.json"), b, 0o644); err != nil {
				return err
			}
			fmt.Printf("golden %s: %d recs, dirs %s %s %s\n", name, len(man.Recs), man.RecDir, man.OtherDir, man.TagDir)
		}
	}
	return nil
}

// ---- extra golden: a type whose name starts with an acronym, with and
// without lower-case names (written by the pinned release like the others) ----

type GoldenExtra struct {
	Name   string            `json:"name"`
	Commit string            `json:"written_by_commit"`
	Lower  bool              `json:"lowercase_names"`
	Dir    string            `json:"dir"`
	Objs   map[string]string `json:"objs"`
}

func genGoldenExtra(outDir, commit string) error {
	for i, lower := range []bool{false, true} {
		name := fmt.Sprintf("x%d", i)
		root := filepath.Join(outDir, name, "db")
		os.RemoveAll(filepath.Join(outDir, name))
		sod.LowercaseNames = lower
		db := sod.Open(root)
		if err := db.Create(&URLRec{}, sod.DefaultSchema); err != nil {
			return err
		}
		man := GoldenExtra{Name: name, Commit: commit, Lower: lower, Objs: map[string]string{}}
		for j := 0; j < 3; j++ {
			o := &URLRec{Host: fmt.Sprintf("Host%d.Example", j), Hits: j * 10}
			if err := db.InsertOrUpdate(o); err != nil {
				return err
			}
			man.Objs[o.UUID()] = canonJSON(o)
		}
		if err := db.Close(); err != nil {
			return err
		}
		ents, _ := os.ReadDir(root)
		if len(ents) != 1 {
			return fmt.Errorf("%s: expected one directory", name)
		}
		man.Dir = ents[0].Name()
		b, _ := json.MarshalIndent(man, "", " ")
		if err := os.WriteFile(filepath.Join(outDir, name, "manifest.json"), b, 0o644); err != nil {
			return err
		}
		fmt.Printf("golden %s: lower=%v dir=%s\n", name, lower, man.Dir)
	}
	sod.LowercaseNames = false
	return nil
}
