package main

import (
	"fmt"

	"github.com/0xrawsec/sod"
)

// C20 — a search result is a snapshot (DESIGN 4/C20).

func init() {
	drivers["C20"] = &driver{cases: tierN(400, 12000), run: runC20}
}

func runC20(k int, rng *Rng) CaseResult {
	cfg := genConfig(rng, GenOpts{IndexBias: 0.6, ForceSync: rng.P(0.7)})
	clockNewCase(clockModeFor(cfg))
	installHooks(stdHooks())
	w := NewWorld("C20", rng, cfg, caseDir(k, "c20"))
	w.storeWant = false
	defer w.Cleanup()
	if !w.OpenCreate() {
		return w.finish(nil, false, nil)
	}
	// collections grown one by one so that append both reallocates and does not
	grow := HistOpts{Steps: 2 + rng.Intn(16), MaxObjs: 18, Rec: RecOpts{ValidOnly: true, Simple: true}, Mix: Mix{Ins: 70, Upd: 20, Del: 5}}
	w.Run(grow)
	scenarios := 0
	writesBetween := 0
	for round := 0; round < 4 && !w.failed(); round++ {
		qs := w.evaluable(w.queriesFor(allSearchPaths()))
		if len(qs) == 0 {
			break
		}
		q := qs[rng.Intn(len(qs))]
		chain := []Query{q}
		if rng.P(0.25) {
			chain = append(chain, qs[rng.Intn(len(qs))])
		}
		if rng.P(0.2) {
			// a refinement of a search that matched everything (the
			// refinement then works on the whole collection)
			chain = []Query{{"Tag", ">=", -1}, qs[rng.Intn(len(qs))]}
		}
		desc := chainString(chain)
		// evaluate s, and a twin collected immediately (M0)
		var s *sod.Search
		var len0 int
		var err error
		if w.call("Search", func() {
			s = w.buildSearch(chain)
			err = s.Err()
			len0 = s.Len()
		}) {
			break
		}
		if err != nil {
			w.fail("snapshot-search-error", "Search", "-", fmt.Sprintf("%s: %v", desc, err))
			break
		}
		m0list, _, ok := w.collectUUIDs("Search.Collect", func() *sod.Search { return w.buildSearch(chain) }, false)
		if !ok {
			break
		}
		w.logf("snapshot search %s evaluated: %d matches", desc, len(m0list))
		M0 := map[string]bool{}
		for _, u := range m0list {
			M0[u] = true
		}
		if len0 != len(M0) {
			w.fail("snapshot-len", "Len", "-", fmt.Sprintf("%s: Len=%d twin collected %d", desc, len0, len(M0)))
			break
		}
		liveBefore := map[string]bool{}
		for _, u := range w.m.Live() {
			liveBefore[u] = true
		}
		// later writes: before / inside / after the matched range
		wr := HistOpts{Steps: 1 + rng.Intn(6), MaxObjs: 20, Rec: RecOpts{ValidOnly: true, Simple: true},
			Mix: Mix{Ins: 45, Upd: 30, Del: 20, Many: 5, SDel: 3, Bulk: 3, DelAll: 2}}
		if rng.P(0.15) {
			// the collection is emptied, then refilled past the size it had: whatever the old
			// search remembers (positions, ids) now designates other objects
			n := w.m.Len()
			w.Run(HistOpts{Steps: 1, MaxObjs: 40, Rec: wr.Rec, Mix: Mix{DelAll: 1}})
			wr = HistOpts{Steps: n + 1 + rng.Intn(6), MaxObjs: 40, Rec: wr.Rec, Mix: Mix{Ins: 85, Many: 10, Upd: 5}}
			writesBetween++
		}
		w.Run(wr)
		writesBetween += wr.Steps
		if w.failed() {
			break
		}
		deleted := map[string]bool{}
		for u := range liveBefore {
			if _, ok := w.m.objs[u]; !ok {
				deleted[u] = true
			}
		}
		scenarios++
		// the outstanding search must not be changed by later writes
		if n := s.Len(); n != len0 {
			w.fail("snapshot-len-changed", "Len", "-", fmt.Sprintf("%s: Len was %d, is %d after later writes", desc, len0, n))
			break
		}
		// a search derived from the outstanding one (after the writes, before it is collected) is a
		// new search: the outstanding one keeps its matches
		if rng.P(0.5) {
			q2 := qs[rng.Intn(len(qs))]
			useOr := rng.P(0.7)
			w.logf("deriving a search from the outstanding one (or=%v) with %s", useOr, chainString([]Query{q2}))
			if w.call("Search.Or(derive)", func() {
				if useOr {
					s.Or(q2.Path, q2.Op, q2.Probe).Len()
				} else {
					s.And(q2.Path, q2.Op, q2.Probe).Len()
				}
			}) {
				break
			}
			if n := s.Len(); n != len0 {
				w.fail("snapshot-len-changed", "Or(derive)", "-", fmt.Sprintf("%s: Len was %d, is %d after a search was derived from it", desc, len0, n))
				break
			}
		}
		mode := rng.Intn(5)
		api := []string{"Collect", "Assign", "One", "Delete", "Reverse.Limit.Collect"}[mode]
		var got []*Rec
		err = nil
		w.logf("collecting the outstanding search through %s", api)
		if w.call("Search."+api+"(late)", func() {
			switch mode {
			case 0:
				var objs []sod.Object
				objs, err = s.Collect()
				got, _ = objsToRecs(objs)
			case 1:
				err = s.Assign(&got)
			case 2:
				var o sod.Object
				o, err = s.One()
				if err == nil && o != nil {
					if r, ok := o.(*Rec); ok {
						got = []*Rec{r}
					}
				}
			case 3:
				err = s.Delete()
			case 4:
				var objs []sod.Object
				objs, err = s.Reverse().Limit(uint64(1 + rng.Intn(4))).Collect()
				got, _ = objsToRecs(objs)
			}
		}) {
			break
		}
		if mode == 3 {
			// only members of M0 may disappear; without error exactly M0 ∩ live
			var objs []sod.Object
			var e2 error
			if w.call("All", func() { objs, e2 = w.db.All(&Rec{}) }) || e2 != nil {
				if e2 != nil {
					w.fail("read-error", "All", "-", e2.Error())
				}
				break
			}
			recs, _ := objsToRecs(objs)
			now := map[string]bool{}
			for _, r := range recs {
				now[r.UUID()] = true
			}
			for u := range w.m.objs {
				if !now[u] && !M0[u] {
					w.fail("snapshot-delete-nonmember", "Delete", "-", fmt.Sprintf("%s: late Delete removed %s which did not match when the search was evaluated", desc, short(u)))
					break
				}
				if now[u] && M0[u] && err == nil {
					w.fail("snapshot-delete-incomplete", "Delete", "-", fmt.Sprintf("%s: late Delete reported no error but kept member %s", desc, short(u)))
					break
				}
			}
			for u := range now {
				if _, ok := w.m.objs[u]; !ok {
					w.fail("snapshot-delete-resurrected", "Delete", "-", short(u))
				}
			}
			// resynchronise the model with what is stored now
			for _, u := range w.m.Live() {
				if !now[u] {
					w.m.Delete(u)
				}
			}
		} else {
			seen := map[string]bool{}
			for _, r := range got {
				u := r.UUID()
				if !M0[u] {
					w.fail("snapshot-foreign-object", api, "-", fmt.Sprintf("%s: collected %s after later writes, which did not match when the search was evaluated (M0=%s)", desc, short(u), shortList(m0list)))
					break
				}
				if seen[u] {
					w.fail("snapshot-duplicate", api, "-", fmt.Sprintf("%s: %s twice", desc, short(u)))
					break
				}
				seen[u] = true
				if _, ok := w.m.objs[u]; !ok {
					w.fail("snapshot-deleted-object-returned", api, "-", fmt.Sprintf("%s: %s was deleted in the meantime but was returned", desc, short(u)))
					break
				}
			}
			if !w.failed() && err == nil && (mode == 0 || mode == 1) {
				// no error: exactly M0 minus the objects deleted since
				for u := range M0 {
					if !deleted[u] && !seen[u] {
						w.fail("snapshot-member-lost", api, "-", fmt.Sprintf("%s: member %s still stored but missing from the late collect (no error reported)", desc, short(u)))
						break
					}
				}
			}
		}
		if w.failed() {
			break
		}
		// refining the old search later must not disturb the live index
		if rng.P(0.6) {
			q2 := qs[rng.Intn(len(qs))]
			w.call("Search.Or(late)", func() {
				if rng.Bool() {
					s.Or(q2.Path, q2.Op, q2.Probe).Len()
				} else {
					s.And(q2.Path, q2.Op, q2.Probe).Len()
				}
			})
		}
		w.Invariants("index")
		w.SearchSweep(25)
	}
	var sample interface{}
	if k < sampleMax {
		sample = map[string]interface{}{"config": cfg.String(), "ops": w.absOps, "scenarios": scenarios, "writes_between_evaluate_and_collect": writesBetween}
	}
	return w.finish(w.absOps, scenarios >= 1 && writesBetween >= 1, sample)
}
