package main

import (
	"fmt"
	"strings"

	"github.com/0xrawsec/sod"
)

// C04 — close/reopen preserves everything (DESIGN 4/C04).

func init() {
	drivers["C04"] = &driver{cases: tierN(300, 20000), run: runC04}
}

func (w *World) obsForReopen() (ObsOpts, map[string]string) {
	o := ObsOpts{Queries: w.sampleQueries(40), Ordered: true, Index: true, PerUUID: w.m.Live()}
	// equality probes on every stored 64-bit / time value
	for _, p := range []string{"I64", "U64", "T", "N.A", "F64"} {
		for _, u := range w.m.Live() {
			v, _ := leaf(w.m.objs[u], p)
			o.Queries = append(o.Queries, Query{p, "=", v}, Query{p, ">", v}, Query{p, "<=", v})
		}
	}
	if len(w.m.deleted) > 0 {
		o.PerUUID = append(o.PerUUID, w.m.deleted[len(w.m.deleted)-1])
	}
	return o, w.Observe(o)
}

// runC04InvalidUTF8: directed, seed-independent scenario of a listed finding (DESIGN 3.5 / 5): Go
// strings are byte strings, the files are JSON. A string that is not valid UTF-8 is indexed and
// cached as it is and written with U+FFFD in place of every invalid byte, so closing and reopening
// changes what is stored, and an index that was ordered on the raw bytes may not be on the stored
// ones. The scenario passes once sod treats such strings consistently (whatever way it chooses).
func runC04InvalidUTF8(k int, rng *Rng) CaseResult {
	cfg := Config{Ext: ".json", Fields: map[string]Cons{"S": {Index: true}}}
	clockNewCase(clockModeFor(cfg))
	installHooks(stdHooks())
	w := NewWorld("C04", rng, cfg, caseDir(k, "c04u"))
	w.noHostile = true
	defer w.Cleanup()
	if !w.OpenCreate() {
		return w.finish(nil, false, nil)
	}
	a := genRec(rng, 0, RecOpts{ValidOnly: true, Simple: true})
	b := genRec(rng, 1, RecOpts{ValidOnly: true, Simple: true})
	a.S, b.S = "\xff", "\ufffe" // raw byte 0xff sorts above U+FFFE (ef bf be); its stored form U+FFFD (ef bf bd) below
	var err error
	for _, x := range []*Rec{a, b} {
		x := x
		w.call("InsertOrUpdate", func() { err = w.db.InsertOrUpdate(x) })
		if err != nil {
			// refusing what the file format cannot hold is one consistent treatment
			return w.finish([]string{"invalid-utf8", "refused"}, true, nil)
		}
	}
	look := func() string {
		var out []string
		var e error
		var o sod.Object
		w.call("GetByUUID", func() { o, e = w.db.GetByUUID(&Rec{}, a.UUID()) })
		if r, ok := o.(*Rec); ok && e == nil {
			out = append(out, fmt.Sprintf("S=%q", r.S))
		} else {
			out = append(out, fmt.Sprintf("get: %v", e))
		}
		for _, probe := range []string{"\xff", "\ufffd"} {
			var n int
			w.call("Search", func() {
				s := w.db.Search(&Rec{}, "S", "=", probe)
				n, e = s.Len(), s.Err()
			})
			out = append(out, fmt.Sprintf("S = %q -> %d matches, err=%v", probe, n, e))
		}
		return strings.Join(out, "; ")
	}
	before := look()
	w.call("Close", func() { err = w.db.Close() })
	if err != nil {
		w.fail("close-failed", "Close", "-", err.Error())
		return w.finish(nil, true, nil)
	}
	w.Open()
	after := look()
	if before != after && !w.failed() {
		w.fail("string-not-preserved", "close-reopen", "invalid-utf8", fmt.Sprintf("objects holding S=%q and S=%q, S indexed:\n old handle: %s\n new handle: %s", a.S, b.S, before, after))
	}
	return w.finish([]string{"invalid-utf8"}, true, nil)
}

func runC04(k int, rng *Rng) CaseResult {
	if k == 0 {
		return runC04InvalidUTF8(k, rng)
	}
	cfg := genConfig(rng, GenOpts{UniqueBias: 0.3})
	// make the precision-sensitive fields indexed often
	for _, p := range []string{"I64", "U64", "T", "N.A"} {
		if rng.P(0.6) {
			c := cfg.Fields[p]
			c.Index = true
			cfg.Fields[p] = c
		}
	}
	clockNewCase(clockModeFor(cfg))
	installHooks(stdHooks())
	w := NewWorld("C04", rng, cfg, caseDir(k, "c04"))
	w.predict, w.storeWant = true, false
	defer w.Cleanup()
	if !w.OpenCreate() {
		return w.finish(nil, false, nil)
	}
	o := HistOpts{MaxObjs: 10, BiasUnique: true, Rec: RecOpts{ValidOnly: true, Simple: true},
		Mix: Mix{Ins: 35, Upd: 30, Noop: 3, Del: 12, Reins: 2, Many: 6, Bulk: 2, SDel: 2, Flush: 6, Tick: 2}}
	reopens := 0
	segments := 2 + rng.Intn(4)
	peeks := 0
	for s := 0; s < segments && !w.failed(); s++ {
		n := 2 + rng.Intn(8)
		for i := 0; i < n && !w.failed(); i++ {
			w.Step(o)
			// synchronous mode: every completed call has committed, so a
			// second handle opened on the directory right now (the first one
			// keeps running) must already see everything
			if cfg.Async == 0 && !w.failed() && rng.P(0.3) {
				live := w.db
				w.db = sod.Open(w.root)
				w.handles = append(w.handles, w.db)
				if ok, v := w.try(func() {
					w.ReadSweep()
					w.SearchSweep(10)
					w.IndexedEqualitySweep()
				}); !ok {
					w.fail("second-handle-differs", "after-completed-call", v.Clause, "a fresh handle opened after a completed call (no Close) does not see the committed state: "+v.Api+": "+first(v.Detail, 600))
				}
				w.db = live
				peeks++
			}
		}
		if w.failed() {
			break
		}
		if rng.P(0.3) && w.m.Len() > 0 {
			// delete the most recently created object right before the
			// reopen (object-id counter)
			live := w.m.Live()
			w.Delete(live[len(live)-1])
		}
		w.step++
		opts, before := w.obsForReopen()
		if w.failed() {
			break
		}
		abandon := cfg.Async == 0 && rng.P(0.4)
		if abandon {
			w.Abandon()
			w.abs("abandon")
		} else {
			w.Reopen(rng.P(0.3))
			w.abs("reopen")
		}
		if w.failed() {
			break
		}
		reopens++
		after := w.Observe(opts)
		if d := diffObs(before, after, "old handle", "new handle"); d != "" {
			kind := "close-reopen"
			if abandon {
				kind = "abandon"
			}
			w.fail("reopen-differs", kind, diffKeyClass(before, after), d)
			break
		}
		stats.Count("reopen_comparisons", int64(len(before)))
		// and the new handle agrees with the model that never restarted
		w.ReadSweep()
		w.SearchSweep(25)
		w.Invariants("index")
	}
	if !w.failed() {
		// behaviour after the last reopen: uniqueness and id reuse
		for i := 0; i < 6 && !w.failed(); i++ {
			w.Step(o)
		}
		w.ReadSweep()
		w.SearchSweep(25)
		w.Invariants("index")
	}
	var sample interface{}
	if k < sampleMax {
		sample = map[string]interface{}{"config": cfg.String(), "ops": w.absOps, "reopens": reopens, "second_handle_peeks": peeks}
	}
	return w.finish(append(w.absOps, fmt.Sprint(segments)), reopens >= 1 && w.accepts >= 2, sample)
}
