package main

import (
	"fmt"
	"reflect"
	"sort"
	"strings"

	"github.com/0xrawsec/sod"
)

// ---- canonical observation S(handle) (DESIGN M1) ----

// name renders a uuid as its creation slot so that observations of two
// executions of the same abstract history are comparable.
func (w *World) name(u string) string {
	if i := w.slotOf(u); i >= 0 {
		return fmt.Sprintf("o%d", i)
	}
	return "?" + short(u)
}

func leafType(path string) reflect.Type {
	t := reflect.TypeOf(Rec{})
	for _, n := range strings.Split(path, ".") {
		for t.Kind() == reflect.Ptr {
			t = t.Elem()
		}
		f, ok := t.FieldByName(n)
		if !ok {
			return nil
		}
		t = f.Type
	}
	for t.Kind() == reflect.Ptr {
		t = t.Elem()
	}
	return t
}

// assignIndex calls AssignIndex with a slice of the field's own type.
func (w *World) assignIndex(path string) (keys []Key, err error, panicked bool) {
	t := leafType(path)
	if t == nil {
		return nil, fmt.Errorf("harness: no such path"), false
	}
	target := reflect.New(reflect.SliceOf(t))
	panicked = w.call("AssignIndex", func() { err = w.db.AssignIndex(&Rec{}, path, target.Interface()) })
	if panicked || err != nil {
		return
	}
	s := target.Elem()
	for i := 0; i < s.Len(); i++ {
		k, ok := keyOf(s.Index(i).Interface())
		if !ok {
			return nil, fmt.Errorf("harness: unkeyable index value %v", s.Index(i).Interface()), false
		}
		keys = append(keys, k)
	}
	return
}

type ObsOpts struct {
	Queries []Query
	Ordered bool // keep the order of results of searches on indexed fields
	Index   bool // AssignIndex of every indexed field
	PerUUID []string
}

// Observe returns the canonical observation of the handle. Panics are
// recorded as violations by call(); errors are part of the observation.
func (w *World) Observe(o ObsOpts) map[string]string {
	obs := map[string]string{}
	stats.Count("observations", 1)
	var n int
	var err error
	w.call("Count", func() { n, err = w.db.Count(&Rec{}) })
	obs["count"] = fmt.Sprintf("%d/%s", n, errClass(err))
	var objs []sod.Object
	w.call("All", func() { objs, err = w.db.All(&Rec{}) })
	if err != nil {
		obs["all"] = "err:" + errClass(err)
	} else if recs, ok := objsToRecs(objs); ok {
		var parts []string
		for _, r := range recs {
			parts = append(parts, w.name(r.UUID())+"="+canonJSON(r))
		}
		sort.Strings(parts)
		obs["all"] = strings.Join(parts, "\n")
	} else {
		obs["all"] = "badtype"
	}
	for _, u := range o.PerUUID {
		in := &Rec{}
		in.Initialize(u)
		var ob sod.Object
		w.call("Get", func() { ob, err = w.db.Get(in) })
		if err != nil {
			obs["get:"+w.name(u)] = "err:" + notFoundClass(err)
		} else {
			obs["get:"+w.name(u)] = canonJSON(ob)
		}
		in2 := &Rec{O: 7777, S: "caller's", M: map[string][]*Sub{"caller's": nil}}
		in2.Initialize(u)
		w.call("Get", func() { ob, err = w.db.Get(in2) })
		if err != nil {
			obs["get-into-callers-object:"+w.name(u)] = "err:" + notFoundClass(err)
		} else {
			obs["get-into-callers-object:"+w.name(u)] = canonJSON(ob)
		}
		x := &Rec{}
		x.Initialize(u)
		var ok bool
		w.call("Exist", func() { ok, err = w.db.Exist(x) })
		obs["exist:"+w.name(u)] = fmt.Sprintf("%v/%s", ok, notFoundClass(err))
	}
	for _, q := range o.Queries {
		var s *sod.Search
		var res []sod.Object
		var ln int
		w.call("Search", func() {
			s = w.db.Search(&Rec{}, q.Path, q.Op, q.Probe)
			if err = s.Err(); err != nil {
				return
			}
			ln = s.Len()
			res, err = s.Collect()
		})
		key := "q:" + q.String()
		if err != nil {
			obs[key] = "err:" + errClass(err)
			continue
		}
		recs, _ := objsToRecs(res)
		var names []string
		for _, r := range recs {
			names = append(names, w.name(r.UUID()))
		}
		if !(o.Ordered && w.cfg.indexed(q.Path)) {
			sort.Strings(names)
		}
		obs[key] = fmt.Sprintf("len=%d %s", ln, strings.Join(names, ","))
	}
	if o.Index {
		var paths []string
		for p := range w.cfg.Fields {
			if w.cfg.indexed(p) {
				paths = append(paths, p)
			}
		}
		sort.Strings(paths)
		for _, p := range paths {
			keys, err, _ := w.assignIndex(p)
			if err != nil {
				obs["idx:"+p] = "err:" + errClass(err)
				continue
			}
			var ks []string
			for _, k := range keys {
				ks = append(ks, k.String())
			}
			obs["idx:"+p] = strings.Join(ks, ",")
		}
	}
	return obs
}

func notFoundClass(err error) string {
	if err == nil {
		return "nil"
	}
	if isNotFound(err) {
		return "notfound"
	}
	return errClass(err)
}

// diffObs returns a description of the first differences between two observations.
func diffObs(a, b map[string]string, an, bn string) string {
	var keys []string
	seen := map[string]bool{}
	for k := range a {
		keys = append(keys, k)
		seen[k] = true
	}
	for k := range b {
		if !seen[k] {
			keys = append(keys, k)
		}
	}
	sort.Strings(keys)
	var out []string
	for _, k := range keys {
		if a[k] != b[k] {
			out = append(out, fmt.Sprintf("%s:\n  %s: %s\n  %s: %s", k, an, first(a[k], 300), bn, first(b[k], 300)))
			if len(out) >= 3 {
				break
			}
		}
	}
	return strings.Join(out, "\n")
}

func first(s string, n int) string {
	if len(s) > n {
		return s[:n] + "..."
	}
	return s
}

// diffKey returns the first differing key (for signatures: its class only).
func diffKeyClass(a, b map[string]string) string {
	var keys []string
	for k := range a {
		keys = append(keys, k)
	}
	for k := range b {
		if _, ok := a[k]; !ok {
			keys = append(keys, k)
		}
	}
	sort.Strings(keys)
	for _, k := range keys {
		if a[k] != b[k] {
			if i := strings.Index(k, ":"); i > 0 {
				return k[:i]
			}
			return k
		}
	}
	return ""
}

// sampleQueries draws n evaluable queries from the matrix.
func (w *World) sampleQueries(n int) []Query {
	qs := w.queriesFor(allSearchPaths())
	if len(qs) == 0 {
		return nil
	}
	out := make([]Query, 0, n)
	for i := 0; i < n; i++ {
		out = append(out, qs[w.rng.Intn(len(qs))])
	}
	return out
}
