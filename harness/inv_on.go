//go:build verifinv

package main

import "github.com/0xrawsec/sod"

func hasInvariants() bool                   { return true }
func invariants(db *sod.DB) []string        { return sod.VerifInvariants(db) }
func pending(db *sod.DB, of sod.Object) int { return sod.VerifPending(db, of) }
