package main

import (
	"bytes"
	"compress/gzip"
	"encoding/json"
	"fmt"
	"io"
	"os"
	"path/filepath"
	"sort"
	"strings"
)

// ---- independent on-disk decoder (M9). Knows the format from the property
// statement and the golden corpus only; never calls sod. ----

type DiskState struct {
	Dir       string
	Exists    bool
	HasSchema bool
	SchemaRaw []byte
	Schema    map[string]interface{}
	SchemaErr string
	Objects   map[string][]byte // uuid -> decompressed file content
	ObjErr    map[string]string // uuid -> why it cannot be decoded
	Stray     []string          // entries that are neither schema.json nor an object file by the name rule
	Names     map[string]string // uuid -> file name
}

// goldenLowerName is the directory name with LowercaseNames on, as recorded
// from the pinned release (golden corpus).
func goldenLowerName(typ string) string {
	switch typ {
	case "main.Rec":
		return "main._rec"
	case "main.Other":
		return "main._other"
	case "main.Tagged":
		return "main._tagged"
	}
	return strings.ToLower(typ)
}

func readDisk(dir, ext string, compress bool) *DiskState {
	d := &DiskState{Dir: dir, Objects: map[string][]byte{}, ObjErr: map[string]string{}, Names: map[string]string{}}
	ents, err := os.ReadDir(dir)
	if err != nil {
		return d
	}
	d.Exists = true
	suffix := ext
	if compress {
		suffix += ".gz"
	}
	for _, e := range ents {
		name := e.Name()
		if name == "schema.json" {
			d.HasSchema = true
			d.SchemaRaw, err = os.ReadFile(filepath.Join(dir, name))
			if err != nil {
				d.SchemaErr = err.Error()
				continue
			}
			dec := json.NewDecoder(bytes.NewReader(d.SchemaRaw))
			dec.UseNumber()
			if err := dec.Decode(&d.Schema); err != nil {
				d.SchemaErr = err.Error()
			}
			continue
		}
		if len(name) < 36 || !uuidRe.MatchString(strings.ToLower(name[:36])) || name[36:] != suffix || e.IsDir() {
			d.Stray = append(d.Stray, name)
			continue
		}
		u := name[:36]
		d.Names[u] = name
		raw, err := os.ReadFile(filepath.Join(dir, name))
		if err != nil {
			d.ObjErr[u] = err.Error()
			continue
		}
		if compress {
			zr, err := gzip.NewReader(bytes.NewReader(raw))
			if err != nil {
				d.ObjErr[u] = "gzip: " + err.Error()
				continue
			}
			raw, err = io.ReadAll(zr)
			if err != nil {
				d.ObjErr[u] = "gzip: " + err.Error()
				continue
			}
		} else if len(raw) >= 2 && raw[0] == 0x1f && raw[1] == 0x8b {
			d.ObjErr[u] = "gzip content without .gz name"
			continue
		}
		if !json.Valid(raw) {
			d.ObjErr[u] = "content is not valid JSON"
			continue
		}
		d.Objects[u] = raw
	}
	sort.Strings(d.Stray)
	return d
}

// decodeRec decodes an object file into a Rec carrying uuid.
func decodeRec(u string, raw []byte) (*Rec, error) {
	x := &Rec{}
	if err := json.Unmarshal(raw, x); err != nil {
		return nil, err
	}
	x.Initialize(u)
	return x, nil
}

// indexedIDs returns the uuids listed in schema.json's object-ids map.
func (d *DiskState) indexedUUIDs() (map[string]string, error) {
	if d.Schema == nil {
		return nil, fmt.Errorf("no decoded schema: %s", d.SchemaErr)
	}
	idx, ok := d.Schema["index"].(map[string]interface{})
	if !ok {
		return nil, fmt.Errorf("schema.json has no index object")
	}
	ids, ok := idx["object-ids"].(map[string]interface{})
	if !ok {
		return nil, fmt.Errorf("schema.json index has no object-ids object")
	}
	out := map[string]string{}
	for id, u := range ids {
		s, ok := u.(string)
		if !ok {
			return nil, fmt.Errorf("object-ids value is not a string")
		}
		out[s] = id
	}
	return out, nil
}

// DirSweep compares the decoded directory with the model (sync mode or after a
// flush + commit).
func (w *World) DirSweep() {
	if w.failed() {
		return
	}
	stats.Count("dir_sweeps", 1)
	d := readDisk(w.collDir(), w.cfg.Ext, w.cfg.Compress)
	if !d.Exists || !d.HasSchema {
		w.fail("dir-layout", "-", "-", fmt.Sprintf("collection directory %s exists=%v schema=%v", filepath.Base(w.collDir()), d.Exists, d.HasSchema))
		return
	}
	if len(d.Stray) > 0 {
		w.fail("dir-layout", "-", "-", fmt.Sprintf("unexpected directory entries %v (expected <uuid>%s)", d.Stray, w.cfg.Ext))
		return
	}
	for u, e := range d.ObjErr {
		w.fail("dir-unreadable", "-", "-", fmt.Sprintf("%s: %s", short(u), e))
		return
	}
	for u := range d.Objects {
		if _, ok := w.m.objs[u]; !ok {
			w.fail("dir-extra-file", "-", "-", "file for an object that is not stored: "+short(u))
			return
		}
	}
	for u, want := range w.m.objs {
		raw, ok := d.Objects[u]
		if !ok {
			w.fail("dir-missing-file", "-", "-", "no file for stored object "+short(u))
			return
		}
		x, err := decodeRec(u, raw)
		if err != nil {
			w.fail("dir-unreadable", "-", "-", err.Error())
			return
		}
		if g, e := canonJSON(x), canonJSON(want); g != e {
			w.fail("dir-stale-file", "-", "-", fmt.Sprintf("%s\n file %s\n want %s", short(u), g, e))
			return
		}
	}
	idx, err := d.indexedUUIDs()
	if err != nil {
		w.fail("dir-schema", "-", "-", err.Error())
		return
	}
	for u := range w.m.objs {
		if _, ok := idx[u]; !ok {
			w.fail("dir-schema", "-", "-", "stored object missing from schema.json object-ids: "+short(u))
			return
		}
	}
	if len(idx) != len(w.m.objs) {
		w.fail("dir-schema", "-", "-", fmt.Sprintf("schema.json lists %d objects, model %d", len(idx), len(w.m.objs)))
	}
}

// indexKeys decodes the tuples of schema.json: path -> uuid -> key. Only
// well-formed tuples of known ids are returned.
func (d *DiskState) indexKeys() map[string]map[string]Key {
	out := map[string]map[string]Key{}
	if d.Schema == nil {
		return out
	}
	idx, _ := d.Schema["index"].(map[string]interface{})
	ids, _ := idx["object-ids"].(map[string]interface{})
	fields, _ := idx["fields"].(map[string]interface{})
	for p, fv := range fields {
		fm, _ := fv.(map[string]interface{})
		cast, _ := fm["cast"].(string)
		tuples, _ := fm["index"].([]interface{})
		out[p] = map[string]Key{}
		for _, t := range tuples {
			tt, ok := t.([]interface{})
			if !ok || len(tt) != 2 {
				continue
			}
			idn, ok := tt[1].(json.Number)
			if !ok {
				continue
			}
			u, ok := ids[idn.String()].(string)
			if !ok {
				continue
			}
			switch cast {
			case "string":
				if sv, ok := tt[0].(string); ok {
					out[p][u] = Key{Kind: "string", S: sv}
				}
			case "int64":
				if n, ok := tt[0].(json.Number); ok {
					if v, err := n.Int64(); err == nil {
						out[p][u] = Key{Kind: "int64", I: v}
					}
				}
			case "uint64":
				if n, ok := tt[0].(json.Number); ok {
					var v uint64
					if _, err := fmt.Sscan(n.String(), &v); err == nil {
						out[p][u] = Key{Kind: "uint64", U: v}
					}
				}
			case "float64":
				if n, ok := tt[0].(json.Number); ok {
					if v, err := n.Float64(); err == nil {
						out[p][u] = Key{Kind: "float64", F: v}
					}
				}
			}
		}
	}
	return out
}

// staleEntries lists uuids present both in schema.json's index and as object
// files whose indexed tuple value differs from the value in the file.
func (d *DiskState) staleEntries(files map[string]*Rec) []string {
	var out []string
	seen := map[string]bool{}
	for p, m := range d.indexKeys() {
		for u, k := range m {
			x, ok := files[u]
			if !ok || seen[u] {
				continue
			}
			if fk, ok := recKey(x, p); ok && (fk.Kind != k.Kind || cmpKey(fk, k) != 0) {
				out = append(out, u)
				seen[u] = true
			}
		}
	}
	sort.Strings(out)
	return out
}
