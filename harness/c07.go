package main

// C07 — batch insertion is all-or-nothing (DESIGN 4/C07).

func init() {
	drivers["C07"] = &driver{cases: tierN(400, 40000), run: runC07}
}

func runC07(k int, rng *Rng) CaseResult {
	cfg := genConfig(rng, GenOpts{UniqueBias: 0.4})
	clockNewCase(clockModeFor(cfg))
	installHooks(stdHooks())
	w := NewWorld("C07", rng, cfg, caseDir(k, "c07"))
	w.predict, w.storeWant = true, false
	defer w.Cleanup()
	if !w.OpenCreate() {
		return w.finish(nil, false, nil)
	}
	hookLogReset(false)
	o := HistOpts{Steps: 6 + rng.Intn(12), MaxObjs: 14, BiasUnique: true, Rec: RecOpts{InvalidP: 0.08, Simple: true},
		Mix: Mix{Ins: 10, Upd: 6, Del: 6, Many: 50, Bulk: 25, Reopen: 2, Flush: 1}}
	batches, rejected := 0, 0
	o.AfterStep = func(w *World, kind string) {
		// all-or-nothing is "state == model": every read path and the index
		w.ReadSweep()
		w.Invariants("index", "cache", "pending")
		if kind == "many" || kind == "bulk" {
			w.SearchSweep(12)
		}
	}
	for i := 0; i < o.Steps && !w.failed(); i++ {
		before := w.rejects
		kind := w.Step(o)
		if kind == "many" || kind == "bulk" {
			batches++
			if w.rejects > before {
				rejected++
			}
		}
	}
	var sample interface{}
	if k < sampleMax {
		sample = map[string]interface{}{"config": cfg.String(), "ops": w.absOps, "batches": batches, "rejected_batches": rejected}
	}
	return w.finish(w.absOps, batches >= 2 && rejected >= 1, sample)
}
