package main

import (
	"fmt"
	"time"
)

// C07 — batch insertion is all-or-nothing (DESIGN 4/C07).

func init() {
	drivers["C07"] = &driver{cases: tierN(400, 40000), run: runC07}
}

func runC07(k int, rng *Rng) CaseResult {
	cfg := genConfig(rng, GenOpts{UniqueBias: 0.4})
	if k%4 == 0 {
		// a unique field with a case constraint: members of one batch that differ as given and are
		// equal once canonicalised (histories aim at them) refuse the whole batch
		c := cfg.Fields["KS"]
		c.Index, c.Unique = true, true
		if !c.Upper && !c.Lower {
			if rng.Bool() {
				c.Upper = true
			} else {
				c.Lower = true
			}
		}
		cfg.Fields["KS"] = c
	}
	clockNewCase(clockModeFor(cfg))
	installHooks(stdHooks())
	w := NewWorld("C07", rng, cfg, caseDir(k, "c07"))
	w.predict, w.storeWant = true, false
	defer w.Cleanup()
	if !w.OpenCreate() {
		return w.finish(nil, false, nil)
	}
	hookLogReset(false)
	o := HistOpts{Steps: 6 + rng.Intn(12), MaxObjs: 14, BiasUnique: true, Rec: RecOpts{InvalidP: 0.08, Simple: true},
		Mix: Mix{Ins: 10, Upd: 6, Del: 6, Many: 50, Bulk: 25, Reopen: 2, Flush: 1}}
	batches, rejected := 0, 0
	o.AfterStep = func(w *World, kind string) {
		// all-or-nothing is "state == model": every read path and the index
		w.ReadSweep()
		w.Invariants("index", "cache", "pending")
		if kind == "many" || kind == "bulk" {
			w.SearchSweep(12)
		}
	}
	for i := 0; i < o.Steps && !w.failed(); i++ {
		before := w.rejects
		kind := w.Step(o)
		if kind == "many" || kind == "bulk" {
			batches++
			if w.rejects > before {
				rejected++
			}
		}
	}
	// a few cases with chunks of more than a thousand objects ("all chunk sizes"): the offender
	// sits after the 1024th member of its chunk
	if k%50 == 7 && !w.failed() {
		total := 1030 + rng.Intn(120)
		big := make([]*Rec, total)
		for i := range big {
			big[i] = genRec(rng, w.m.tags, RecOpts{ValidOnly: true, Simple: true})
			w.m.tags++
			// keep unique fields free of accidental conflicts
			big[i].K, big[i].KS, big[i].U8, big[i].I64, big[i].F64, big[i].X = 10000+i, fmt.Sprintf("big%d", i), 0, int64(10000+i), float64(10000+i), 10000+i
			big[i].T = time.Unix(int64(1000000+i), 0).UTC()
		}
		// (a unique U8 cannot hold a thousand distinct values: such a batch is rejected at its first
		// pair, which the model predicts as well)
		big[1025+rng.Intn(total-1025)].Bad = 1
		cs := pick(rng, []int{total, total + 1, 1 << 20, 1026})
		before := w.rejects
		w.Bulk(big, cs)
		batches++
		if w.rejects > before {
			rejected++
		}
		if !w.failed() {
			var n int
			var e error
			w.call("Count", func() { n, e = w.db.Count(&Rec{}) })
			if e != nil || n != w.m.Len() {
				w.fail("bulk-count", "InsertOrUpdateBulk", "-", fmt.Sprintf("after a bulk insertion of %d objects in chunks of %d with an invalid member: Count=%d err=%v, model holds %d", total, cs, n, e, w.m.Len()))
			}
			w.Invariants("index")
			stats.Count("big_chunk_cases", 1)
		}
	}
	var sample interface{}
	if k < sampleMax {
		sample = map[string]interface{}{"config": cfg.String(), "ops": w.absOps, "batches": batches, "rejected_batches": rejected}
	}
	return w.finish(w.absOps, batches >= 2 && rejected >= 1, sample)
}
