package main

import (
	"fmt"
	"os"
	"reflect"
	"runtime"
	"sort"
	"strings"
	"sync"
	"time"

	"github.com/0xrawsec/sod"
)

// C09 — no API call can block forever (DESIGN 4/C09, M4).

const c09Walks = 9

func init() {
	drivers["C09"] = &driver{cases: func(t string) int {
		if t == "thorough" {
			return c09Walks + 2000
		}
		return c09Walks + 100
	}, run: func(k int, rng *Rng) CaseResult {
		if k < c09Walks {
			return runC09Walk(k, rng)
		}
		return runC09Stress(k, rng)
	}}
}

func exportedMethods(v interface{}) []string {
	t := reflect.TypeOf(v)
	var out []string
	for i := 0; i < t.NumMethod(); i++ {
		out = append(out, t.Method(i).Name)
	}
	sort.Strings(out)
	return out
}

func (w *World) takeLockViolations(api string) {
	for _, lv := range lockmonTake() {
		w.fail(lv.Kind, api, lv.Class+"@"+lv.Site, lv.Detail)
	}
}

// spawnedGoroutineFate: what became of the goroutine(s) the package spawned from function fn:
// "gone" (entered and returned), or the blocking state the runtime reports for it (decided on the
// goroutine's state, never on elapsed time: the wait below only lets it reach one of the two).
func spawnedGoroutineFate(fn string) string {
	state := "unknown"
	for i := 0; i < 400; i++ {
		lockmon.mu.Lock()
		alive := false
		for _, name := range lockmon.alive {
			alive = alive || strings.Contains(name, fn)
		}
		lockmon.mu.Unlock()
		if !alive && i > 0 {
			return "gone"
		}
		buf := make([]byte, 1<<20)
		buf = buf[:runtime.Stack(buf, true)]
		for _, blk := range strings.Split(string(buf), "\n\n") {
			if strings.Contains(blk, "sod."+fn+".func") {
				hdr := strings.SplitN(blk, "\n", 2)[0]
				if a, b := strings.Index(hdr, "["), strings.Index(hdr, "]"); a >= 0 && b > a {
					state = strings.SplitN(hdr[a+1:b], ",", 2)[0]
				}
			}
		}
		if state == "chan send" || state == "chan receive" || state == "select" {
			return state
		}
		time.Sleep(time.Millisecond)
	}
	return state
}

// runC09Walk: every exported method of *DB and *Search is called at least
// once by a single goroutine (plus the flusher) with the lock monitor on: a
// recursive acquisition or an order inversion is visible without contention.
func runC09Walk(k int, rng *Rng) CaseResult {
	cfg := genConfig(rng, GenOpts{NoLowerName: true})
	cfg.Cache, cfg.Async = false, 0
	switch k % 3 {
	case 1:
		cfg.Cache = true
	case 2:
		cfg.Async, cfg.Threshold, cfg.Timeout = 2, 2, 200*time.Millisecond
	}
	clockNewCase(clockVirtual)
	lockmonReset(true)
	installHooks(lockHooks())
	defer func() { lockmonReset(false) }()
	w := NewWorld("C09", rng, cfg, caseDir(k, "c09w"))
	defer w.Cleanup()
	called := map[string]bool{}
	c := func(name string, f func()) {
		if w.failed() {
			return // e.g. a leaked lock was reported: the next call would block forever
		}
		called[name] = true
		w.step++
		w.logf("%s", name)
		w.call(name, f)
		w.takeLockViolations(name)
		if cfg.Async != 0 && rng.P(0.3) {
			clockTick()
			w.takeLockViolations("flusher")
		}
	}
	w.Open()
	rec := func() *Rec { return &Rec{} }
	var objs []*Rec
	c("DB.Create", func() { w.db.Create(rec(), schemaFor(cfg, rec())) })
	for i := 0; i < 6; i++ {
		x := genRec(rng, i, RecOpts{ValidOnly: true, Simple: true})
		x.K, x.KS, x.U8, x.I64, x.F64, x.X = i, fmt.Sprint("k", i), uint8(i), int64(i), float64(i), i
		x.T = x.T.AddDate(0, 0, i)
		objs = append(objs, x)
	}
	c("DB.Create(second collection)", func() {
		osch := sod.DefaultSchema
		if w.db.Create(&Other{}, osch) == nil {
			w.db.InsertOrUpdate(&Other{A: 1, B: "b1"})
		}
	})
	c("DB.InsertOrUpdate", func() { w.db.InsertOrUpdate(objs[0]) })
	c("DB.InsertOrUpdateMany", func() { w.db.InsertOrUpdateMany(objs[1], objs[2]) })
	c("DB.InsertOrUpdateBulk", func() { w.db.InsertOrUpdateBulk(sod.ToObjectChan([]*Rec{objs[3], objs[4], objs[5]}), 2) })
	// a bulk insertion that stops at its first chunk: the goroutine the package spawned to feed
	// the channel (ToObjectChan) must still come to an end, nobody else holds that channel
	{
		bad := genRec(rng, 50, RecOpts{ValidOnly: true, Simple: true})
		bad.Bad = 1
		rest := []*Rec{bad, genRec(rng, 51, RecOpts{ValidOnly: true, Simple: true}), genRec(rng, 52, RecOpts{ValidOnly: true, Simple: true})}
		var berr error
		c("DB.InsertOrUpdateBulk(stops early)", func() { _, berr = w.db.InsertOrUpdateBulk(sod.ToObjectChan(rest), 1) })
		if berr != nil && !w.failed() && shimAvailable {
			switch st := spawnedGoroutineFate("ToObjectChan"); st {
			case "gone":
				stats.Count("producer_goroutine_ended", 1)
			case "chan send", "chan receive", "select":
				w.fail("spawned-goroutine-blocked-forever", "ToObjectChan", "-", fmt.Sprintf("InsertOrUpdateBulk returned (%v) after its first chunk; the goroutine spawned by ToObjectChan is blocked in [%s] on a channel only that call could read", berr, st))
			default:
				w.incon = "ToObjectChan goroutine neither ended nor blocked on its channel: " + st
			}
		}
	}
	// settings replaced on the live handle (the running flusher must stop cleanly)
	if cfg.Async != 0 {
		nc := cloneCfg(cfg)
		nc.Threshold, nc.Timeout = 5, 300*time.Millisecond
		c("DB.Create", func() { w.db.Create(rec(), schemaFor(nc, rec())) })
		for i := 0; i < 3; i++ {
			clockTick()
			w.takeLockViolations("flusher")
		}
		time.Sleep(2 * time.Millisecond) // let a flusher that is returning run its exit hook
		w.takeLockViolations("flusher")
		c("DB.InsertOrUpdate", func() { objs[0].I++; w.db.InsertOrUpdate(objs[0]) })
		clockTick()
		w.takeLockViolations("flusher")
	}
	c("DB.Schema", func() { w.db.Schema(rec()) })
	c("DB.Get", func() { x := rec(); x.Initialize(objs[0].UUID()); w.db.Get(x) })
	c("DB.GetByUUID", func() { w.db.GetByUUID(rec(), objs[1].UUID()) })
	c("DB.Exist", func() { w.db.Exist(objs[2]) })
	c("DB.Count", func() { w.db.Count(rec()) })
	c("DB.All", func() { w.db.All(rec()) })
	c("DB.AssignAll", func() { var t []*Rec; w.db.AssignAll(rec(), &t) })
	idxPath, unidxPath := "", ""
	for _, f := range recFields {
		if f.Desc && f.Kind == "int64" && !f.IsTime {
			if cfg.indexed(f.Path) && idxPath == "" {
				idxPath = f.Path
			}
			if !cfg.indexed(f.Path) && unidxPath == "" {
				unidxPath = f.Path
			}
		}
	}
	if idxPath != "" {
		c("DB.AssignIndex", func() { w.assignIndex(idxPath) })
	} else {
		c("DB.AssignIndex", func() { w.assignIndex("I") })
	}
	for _, p := range []string{idxPath, unidxPath} {
		if p == "" {
			continue
		}
		p := p
		c("DB.Search", func() { w.db.Search(rec(), p, ">=", 0) })
		c("Search.Len", func() { w.db.Search(rec(), p, ">=", 0).Len() })
		c("Search.Err", func() { w.db.Search(rec(), p, ">=", 0).Err() })
		c("Search.Collect", func() { w.db.Search(rec(), p, ">=", 0).Collect() })
		c("Search.And", func() { w.db.Search(rec(), p, ">=", 0).And("Tag", ">=", 0).Collect() })
		c("Search.Or", func() { w.db.Search(rec(), p, ">=", 0).Or("Tag", "<", 3).Collect() })
		c("Search.Operation", func() { w.db.Search(rec(), p, ">=", 0).Operation("and", "Tag", ">=", 0).Collect() })
		c("Search.Reverse", func() { w.db.Search(rec(), p, ">=", 0).Reverse().Collect() })
		c("Search.Limit", func() { w.db.Search(rec(), p, ">=", 0).Limit(2).Collect() })
		c("Search.One", func() { w.db.Search(rec(), p, ">=", 0).One() })
		c("Search.AssignOne", func() { var o sod.Object = rec(); w.db.Search(rec(), p, ">=", 0).AssignOne(&o) })
		c("Search.AssignUnique", func() { var o sod.Object = rec(); w.db.Search(rec(), "K", "=", 1).AssignUnique(&o) })
		c("Search.Assign", func() { var t []*Rec; w.db.Search(rec(), p, ">=", 0).Assign(&t) })
		c("Search.Expects", func() { w.db.Search(rec(), p, ">=", 0).Expects(6).Collect() })
		c("Search.ExpectsZeroOrN", func() { w.db.Search(rec(), p, ">=", 0).ExpectsZeroOrN(6).Collect() })
		c("Search.Iterator", func() { w.db.Search(rec(), p, ">=", 0).Iterator() })
		c("Search.Delete", func() { w.db.Search(rec(), "Tag", "=", 5).Delete() })
	}
	c("DB.Iterator", func() { w.db.Iterator(rec()) })
	c("DB.DeleteObjects", func() {
		if it, err := w.db.Iterator(rec()); err == nil {
			_ = it
			s, _ := w.db.Search(rec(), "Tag", "=", 4).Iterator()
			if s != nil {
				w.db.DeleteObjects(s)
			}
		}
	})
	c("DB.Control", func() { w.db.Control() })
	c("DB.Commit", func() { w.db.Commit(rec()) })
	c("DB.Flush", func() { w.db.Flush(objs[0]) })
	c("DB.FlushAndCommit", func() { w.db.FlushAndCommit(objs[1]) })
	c("DB.FlushAll", func() { w.db.FlushAll(rec()) })
	c("DB.FlushAllAndCommit", func() { w.db.FlushAllAndCommit(rec()) })
	c("DB.Repair", func() { w.db.Repair(rec()) })
	c("DB.Delete", func() { w.db.Delete(objs[3]) })
	c("DB.InsertOrUpdate", func() { objs[0].I++; w.db.InsertOrUpdate(objs[0]) })
	c("DB.DeleteAll", func() { w.db.DeleteAll(rec()) })
	c("DB.Close", func() { w.db.Close() })
	// first calls on fresh handles of a directory holding two collections: whichever call loads a
	// schema (a write, a read, Schema itself), the handle's mutexes are taken in one order
	for round := 0; round < 2; round++ {
		w.Open()
		if round == 0 {
			c("DB.InsertOrUpdate(first call, loads a schema)", func() { w.db.InsertOrUpdate(&Other{A: 9, B: "b9"}) })
			c("DB.Schema(first call, loads a schema)", func() { w.db.Schema(rec()) })
		} else {
			c("DB.Schema(first call, loads a schema)", func() { w.db.Schema(&Other{}) })
			c("DB.InsertOrUpdateMany(first call, loads a schema)", func() { objs[1].I++; w.db.InsertOrUpdateMany(objs[1]) })
			c("DB.Count(first call, unknown collection)", func() { w.db.Count(&Tagged{}) })
		}
		c("DB.Close", func() { w.db.Close() })
	}
	w.Open()
	c("DB.Create", func() { w.db.Create(rec(), schemaFor(cfg, rec())) })
	c("DB.Drop", func() { w.db.Drop() })
	// the lock primitives themselves are exported; they are exercised as a pair
	c("DB.Lock", func() { w.db.Lock(); w.db.Unlock() })
	called["DB.Unlock"] = true
	c("DB.RLock", func() { w.db.RLock(); w.db.RUnlock() })
	called["DB.RUnlock"] = true
	var uncovered []string
	for _, m := range exportedMethods(&sod.DB{}) {
		if !called["DB."+m] {
			uncovered = append(uncovered, "DB."+m)
		}
		stats.SetAdd("api_methods", "DB."+m)
	}
	for _, m := range exportedMethods(&sod.Search{}) {
		if !called["Search."+m] {
			uncovered = append(uncovered, "Search."+m)
		}
		stats.SetAdd("api_methods", "Search."+m)
	}
	for _, u := range uncovered {
		stats.SetAdd("api_methods_not_driven", u)
	}
	lockmon.mu.Lock()
	ev := lockmon.events
	lockmon.mu.Unlock()
	stats.Count("lock_events", ev)
	res := w.finish([]string{"walk", cfg.Class()}, true, nil)
	if !shimAvailable {
		res.Inconclusive = "lock monitor unavailable (instrumentation level C)"
	}
	if k < 3 {
		res.Sample = map[string]interface{}{"walk_config": cfg.Class(), "methods_called": len(called), "methods_not_driven": uncovered, "lock_events": ev}
	}
	return res
}

// runC09Stress: enumerating readers against writers and the ticking flusher;
// the lock monitor decides a deadlock the moment the wait-for cycle forms.
func runC09Stress(k int, rng *Rng) CaseResult {
	cfg := genConfig(rng, GenOpts{NoLowerName: true, NoUnique: true})
	if cfg.Async != 0 {
		cfg.Async, cfg.Threshold, cfg.Timeout = 2, pick(rng, []int{1, 3}), 100*time.Millisecond
	}
	clockNewCase(clockScaled)
	lockmonReset(true)
	installHooks(lockHooks())
	defer func() { lockmonReset(false) }()
	w := NewWorld("C09", rng, cfg, caseDir(k, "c09s"))
	defer w.Cleanup()
	if !w.OpenCreate() {
		return w.finish(nil, false, nil)
	}
	for i := 0; i < 5; i++ {
		w.db.InsertOrUpdate(genRec(rng, i, RecOpts{ValidOnly: true, Simple: true}))
	}
	unidx := "Tag"
	for _, f := range recFields {
		if f.Desc && f.Kind == "int64" && !f.IsTime && !cfg.indexed(f.Path) {
			unidx = f.Path
		}
	}
	nReaders, nWriters := 2+rng.Intn(3), 1+rng.Intn(3)
	var wg sync.WaitGroup
	done := make(chan struct{})
	var opsMu sync.Mutex
	opsDone := 0
	seeds := make([]*Rng, nReaders+nWriters)
	for i := range seeds {
		seeds[i] = rng.Fork()
	}
	worker := func(id int, reader bool) {
		defer wg.Done()
		r := seeds[id]
		for i := 0; i < 25; i++ {
			func() {
				defer func() { recover() }()
				if reader {
					switch r.Intn(7) {
					case 0:
						w.db.All(&Rec{})
					case 1:
						var t []*Rec
						w.db.AssignAll(&Rec{}, &t)
					case 2:
						w.db.Search(&Rec{}, unidx, ">=", 0).Collect()
					case 3:
						w.db.Count(&Rec{})
					case 4:
						w.db.Search(&Rec{}, unidx, "<", 100).And("Tag", ">=", 0).One()
					case 5:
						w.db.Search(&Rec{}, "Tag", ">=", 0).Or(unidx, "=", 1).Len()
					case 6:
						w.db.Exist(&Rec{})
					}
				} else {
					switch r.Intn(6) {
					case 0, 1:
						w.db.InsertOrUpdate(genRec(r, 100+id, RecOpts{ValidOnly: true, Simple: true}))
					case 2:
						w.db.InsertOrUpdateMany(genRec(r, 100+id, RecOpts{ValidOnly: true, Simple: true}), genRec(r, 100+id, RecOpts{ValidOnly: true, Simple: true}))
					case 3:
						w.db.Search(&Rec{}, "Tag", "=", 100+id).Limit(1).Delete()
					case 4:
						w.db.FlushAllAndCommit(&Rec{})
					case 5:
						if r.P(0.2) {
							w.db.DeleteAll(&Rec{})
						} else {
							w.db.Commit(&Rec{})
						}
					}
				}
			}()
			opsMu.Lock()
			opsDone++
			opsMu.Unlock()
		}
	}
	for i := 0; i < nReaders; i++ {
		wg.Add(1)
		go worker(i, true)
	}
	for i := 0; i < nWriters; i++ {
		wg.Add(1)
		go worker(nReaders+i, false)
	}
	go func() { wg.Wait(); close(done) }()
	finished := false
	select {
	case <-done:
		finished = true
	case <-time.After(10 * time.Second):
		// not finished after 10 s (the workload normally takes milliseconds):
		// is one acquisition of a write lock being held over a whole further
		// window while the process burns CPU? Then a call spins under the
		// lock: decided by CPU time and monitor state, like M10's hang rule.
		holders0, cpu0 := lockmonWriteHolders(), cpuTime()
		select {
		case <-done:
			finished = true
		case <-time.After(20 * time.Second):
			holders1, cpu1 := lockmonWriteHolders(), cpuTime()
			same := ""
			for _, h := range holders0 {
				for _, h2 := range holders1 {
					if h == h2 {
						same = h
					}
				}
			}
			if same != "" && cpu1-cpu0 > 12*time.Second {
				site := same
				if i := strings.LastIndex(same, "/"); i >= 0 {
					site = same[i+1:]
				}
				w.fail("busy-loop-under-lock", "stress", site, fmt.Sprintf("the write lock acquisition %s has been held for a whole 20 s window during which the process burnt %v of CPU, while %d calls wait: a call spins while holding the handle lock", same, cpu1-cpu0, nReaders+nWriters))
			}
		}
	}
	// phase 2: Close while other goroutines still hold the handle for reading (exported RLock, long
	// enumerations), over several polls of the flusher: Close must end once they are gone, and the
	// handle must answer afterwards
	if finished && !w.failed() && k%2 == 0 {
		var wg2 sync.WaitGroup
		done2 := make(chan struct{})
		r2 := rng.Fork()
		holds := []time.Duration{time.Duration(3+r2.Intn(6)) * time.Millisecond, time.Duration(2+r2.Intn(9)) * time.Millisecond}
		for i := 0; i < 2; i++ {
			wg2.Add(1)
			go func(hold time.Duration) {
				defer wg2.Done()
				defer func() { recover() }()
				for j := 0; j < 4; j++ {
					w.db.RLock()
					time.Sleep(hold)
					w.db.RUnlock()
					w.db.All(&Rec{})
				}
			}(holds[i])
		}
		wg2.Add(1)
		go func() {
			defer wg2.Done()
			defer func() { recover() }()
			time.Sleep(time.Millisecond)
			w.db.Close()
			w.db.Count(&Rec{})
		}()
		go func() { wg2.Wait(); close(done2) }()
		select {
		case <-done2:
			stats.Count("close_under_readers", 1)
		case <-time.After(20 * time.Second):
			finished = false
		}
	}
	w.takeLockViolations("stress")
	lockmon.mu.Lock()
	ev := lockmon.events
	acq := append([]string(nil), lockmon.acq...)
	lockmon.mu.Unlock()
	stats.Count("lock_events", ev)
	// interleaving fingerprint: order of handle-lock acquisitions with goroutines renamed by first appearance
	ren := map[string]string{}
	var fp []string
	for _, a := range acq {
		g, mode := a[:len(a)-1], a[len(a)-1:]
		if _, ok := ren[g]; !ok {
			ren[g] = fmt.Sprint(len(ren))
		}
		fp = append(fp, ren[g]+mode)
	}
	stats.SetAdd("interleavings", fingerprint(fp...))
	res := w.finish([]string{"stress", strings.Join(fp, "")}, finished && opsDone > 20, nil)
	if !finished {
		if len(res.Violations) == 0 {
			res.Inconclusive = fmt.Sprintf("bounded workload did not finish in 30 s (%d ops done) and the lock monitor saw no cycle", opsDone)
		}
		res.Type, res.Prop, res.Case = "case", "C09", k
		if len(res.Violations) > 0 {
			res.Verdict = "violation"
		} else {
			res.Verdict = "inconclusive"
		}
		emit(res)
		finishChild()
		os.Exit(0)
	}
	if k < c09Walks+3 {
		res.Sample = map[string]interface{}{"config": cfg.String(), "readers": nReaders, "writers": nWriters, "ops": opsDone, "lock_events": ev, "handle_lock_acquisitions": strings.Join(first3(fp), " ")}
	}
	return res
}

func first3(s []string) []string {
	if len(s) > 40 {
		return s[:40]
	}
	return s
}
