package main

import (
	"fmt"
	"os"
	"sort"
	"time"

	"github.com/0xrawsec/sod"
)

// C05 — a crash at any point is detected or harmless; Repair converges
// (DESIGN 4/C05, M3). Every crash state of every generated history is
// evaluated (fault_enumeration).

func init() {
	drivers["C05"] = &driver{cases: tierN(160, 1500), run: runC05}
}

// try runs f and reports whether it recorded a violation (which is removed).
func (w *World) try(f func()) (ok bool, v *Violation) {
	n := len(w.viol)
	inc := w.incon
	f()
	if len(w.viol) > n {
		x := w.viol[n]
		w.viol = w.viol[:n]
		w.incon = inc
		return false, &x
	}
	return true, nil
}

type stepInfo struct {
	kind    string
	before  map[string]string
	after   map[string]string
	touched map[string]bool
	// allowed values per touched uuid: its before- and after-value and the
	// value of every member of the interrupted call that designates it (an
	// object may appear several times in one batch)
	allowed map[string]map[string]bool
}

func modelsDiffer(a, b map[string]string) map[string]bool {
	out := map[string]bool{}
	for u, v := range a {
		if b[u] != v {
			out[u] = true
		}
	}
	for u, v := range b {
		if a[u] != v {
			out[u] = true
		}
	}
	return out
}

func apiOfKind(kind string) string {
	switch kind {
	case "ins":
		return "InsertOrUpdate(new)"
	case "upd", "noop":
		return "InsertOrUpdate(update)"
	case "reins":
		return "InsertOrUpdate(reinsert)"
	case "del", "delabs":
		return "Delete"
	case "many":
		return "InsertOrUpdateMany"
	case "bulk":
		return "InsertOrUpdateBulk"
	case "sdel":
		return "Search.Delete"
	case "delall":
		return "DeleteAll"
	case "create":
		return "Create"
	case "reopen":
		return "Close"
	case "flush":
		return "Flush"
	case "tick":
		return "flusher"
	case "update-window":
		return "update-window"
	}
	return kind
}

// evalCrashState judges one crash state through a fresh handle.
func evalCrashState(k int, seq int, rng *Rng, cfg Config, snap *fsSnapshot, info stepInfo, parent *World) (viol *Violation, class string) {
	root := caseDir(k, fmt.Sprintf("c05x%d", seq))
	defer os.RemoveAll(root)
	if err := materialise(snap.Files, root); err != nil {
		parent.incon = "harness: cannot materialise crash state: " + err.Error()
		return nil, "harness-error"
	}
	w := NewWorld("C05", rng.Fork(), cfg, root)
	w.storeWant = false
	defer w.CloseAll()
	api := apiOfKind(info.kind)
	mk := func(clause, detail string) *Violation {
		// the window (last change of the visible tree), not the sub-step
		// inside it, identifies the place
		site := "window=" + snap.Window
		mode := "sync"
		if cfg.Async != 0 {
			mode = "async"
		}
		sig := fmt.Sprintf("C05|%s|%s|%s|%s", clause, api, mode, site)
		if api == "update-window" && (clause == "stale-index-unnoticed" || clause == "stale-index-after-repair") {
			// one defect, many windows: the state is identified by what the
			// independent decoder sees (an index tuple that differs from the
			// value in the object's file), not by where the crash happened
			sig = fmt.Sprintf("C05|stale-index|update-window|%s|-", mode)
		}
		if api == "update-window" && clause == "repair-fails-on-stale-unique-value" {
			// the same state when the stale tuple holds a unique value taken over by an unindexed file
			sig = fmt.Sprintf("C05|repair-fails-on-stale-unique-value|update-window|%s|-", mode)
		}
		return &Violation{Sig: sig, Clause: clause, Api: api, Step: snap.Step,
			Detail: fmt.Sprintf("crash after FS event %s %s of %s (step %d, %s), configuration %s\n%s", snap.Op, snap.Phase, snap.Path, snap.Step, info.kind, cfg.String(), detail),
			Trace:  parent.trace}
	}
	// independent decoding of the crash state
	d := readDisk(w.collDir(), cfg.Ext, cfg.Compress)
	if !d.Exists {
		return nil, "no-collection-yet"
	}
	for u, e := range d.ObjErr {
		return mk("object-unreadable", fmt.Sprintf("object file of %s cannot be decoded: %s", short(u), e)), "violation"
	}
	files := map[string]*Rec{}
	for u, raw := range d.Objects {
		x, err := decodeRec(u, raw)
		if err != nil {
			return mk("object-unreadable", fmt.Sprintf("object file of %s: %v", short(u), err)), "violation"
		}
		files[u] = x
	}
	// (iv) synchronous mode: acknowledged operations are reflected, the
	// interrupted one is applied per object entirely or not at all
	if cfg.Async == 0 {
		uu := map[string]bool{}
		for u := range files {
			uu[u] = true
		}
		for u := range info.before {
			uu[u] = true
		}
		for u := range info.after {
			uu[u] = true
		}
		for u := range uu {
			got := ""
			if x, ok := files[u]; ok {
				got = canonJSON(x)
			}
			if info.touched[u] {
				if got != info.before[u] && got != info.after[u] && !info.allowed[u][got] {
					return mk("object-neither-before-nor-after", fmt.Sprintf("object %s touched by the interrupted call\n on disk %s\n before  %s\n after   %s", short(u), first(got, 300), first(info.before[u], 300), first(info.after[u], 300))), "violation"
				}
			} else if got != info.before[u] {
				return mk("acknowledged-state-lost", fmt.Sprintf("object %s was not touched by the interrupted call\n on disk %s\n acknowledged %s", short(u), first(got, 300), first(info.before[u], 300))), "violation"
			}
		}
	}
	// asynchronous mode: do the files themselves break a unique constraint? Pending writes are
	// flushed in no particular order, so a crash inside a flush can persist the object that took a
	// unique value before the object that released it (a state no sequence of accepted calls ever
	// went through); identified, like the update window, by what the independent decoder sees
	if cfg.Async != 0 {
		for _, p := range cfg.uniquePathsSorted() {
			seen := map[string]string{}
			for u, x := range files {
				k, ok := recKey(x, p)
				if !ok {
					continue
				}
				if o, dup := seen[k.String()]; dup && o != u {
					v := mk("files-violate-uniqueness", fmt.Sprintf("object files %s and %s both hold %s in unique field %s: the flush wrote the object that took the value, not yet the one that released it", short(o), short(u), k, p))
					v.Sig = fmt.Sprintf("C05|files-violate-uniqueness|flush-order|async|-")
					return v, "violation"
				}
				seen[k.String()] = u
			}
		}
	}
	// is the state inside the window "object file rewritten by an update,
	// index not yet committed"? (decided by the independent decoder)
	if stale := d.staleEntries(files); len(stale) > 0 {
		// synchronous mode: every completed call has committed its index, so only objects of the
		// interrupted call can be in that window. A stale tuple of any other object means a call
		// that was acknowledged earlier never committed its index: another violation than the
		// listed finding, whatever the reopened handle does with it
		if cfg.Async == 0 {
			for _, u := range stale {
				if !info.touched[u] {
					return mk("acknowledged-index-update-lost", fmt.Sprintf("object %s was not touched by the interrupted call, its file holds the acknowledged value, but schema.json still indexes it under an older value: the call that updated it returned without committing the index", short(u))), "violation"
				}
			}
		}
		api = "update-window"
	}
	// fresh handle
	w.Open()
	var err error
	if w.call("Schema", func() { _, err = w.db.Schema(&Rec{}) }) {
		return mk("panic-on-reopen", w.viol[len(w.viol)-1].Detail), "violation"
	}
	clockSettle()
	class = errClass(err)
	switch {
	case err == nil:
		class = "clean"
	case sod.IsIndexCorrupted(err):
		class = "reported"
	case class == "notexist" && len(files) == 0 && !d.HasSchema:
		return nil, "no-schema-yet"
	default:
		return mk("schema-unreadable", fmt.Sprintf("reopening fails with an error that is not an index corruption report: %v (schema.json present=%v, %d bytes)", err, d.HasSchema, len(d.SchemaRaw))), "violation"
	}
	// model := what the files contain
	for _, u := range parent.m.order {
		if x, ok := files[u]; ok {
			w.m.Put(x)
		}
	}
	for u, x := range files { // files of uuids the parent model never knew
		if _, ok := w.m.objs[u]; !ok {
			w.m.Put(x)
		}
	}
	if class == "reported" {
		if w.call("Repair", func() { err = w.db.Repair(&Rec{}) }) || err != nil {
			clause := "repair-fails"
			if api == "update-window" && err != nil && sod.IsUnique(err) {
				clause = "repair-fails-on-stale-unique-value"
			}
			return mk(clause, fmt.Sprintf("corruption was reported but Repair fails: %v", err)), "violation"
		}
		if w.call("Control", func() { err = w.db.Control() }) || err != nil {
			return mk("control-fails-after-repair", fmt.Sprintf("%v", err)), "violation"
		}
	}
	// index and files must agree
	if ok, v := w.try(func() {
		w.ReadSweep()
		w.SearchSweep(40)
		w.IndexedEqualitySweep()
		w.Invariants("index")
	}); !ok {
		clause := "stale-index-unnoticed"
		if class == "reported" {
			clause = "stale-index-after-repair"
		}
		return mk(clause, fmt.Sprintf("reopening %s, but reads/searches disagree with the files: %s / %s\n%s", map[string]string{"clean": "reports nothing", "reported": "reported corruption and Repair ran"}[class], v.Clause, v.Api, first(v.Detail, 700))), "violation"
	}
	return nil, class
}

// c05Directed: fixed, seed-independent histories that visit the windows of the
// listed findings (DESIGN 3.5), so that a listed finding is reproduced at
// every seed and in both tiers, and simply passes once the tree is repaired.
var c05Directed = []struct {
	name  string
	async bool
	steps []string
}{
	{"update-window", false, []string{"insA", "updA"}},
	{"update-window-in-batch", false, []string{"insA", "many:updA+newB"}},
	{"flush-of-pending-update", true, []string{"insA", "flushcommit", "updA", "flushall"}},
	{"flush-of-pending-update-and-new", true, []string{"insA", "flushcommit", "updA", "insB", "flushall"}},
	{"commit-with-pending-update", true, []string{"insA", "insC", "flushcommit", "updA", "delC"}},
	{"commit-with-pending-update-and-new", true, []string{"insA", "insC", "flushcommit", "updA", "insB", "delC"}},
	// the same window when the stale tuple holds a unique value that a new, still unindexed file
	// has taken over: the corruption is reported (unindexed file) and Repair fails on uniqueness
	{"flush-of-pending-unique-move", true, []string{"insA", "flushcommit", "moveA", "insBtakes", "flushall"}},
	// six such moves pending at once: the flush writes them in no particular order, so that (with
	// probability 1 - 2^-6) some crash state holds a taker's file before its releaser's
	{"flush-order-of-unique-moves", true, []string{"ins6", "flushcommit", "move6", "takers6", "flushall"}},
}

// directedStep performs one scripted step; returns the history kind.
func (w *World) directedStep(op string, objs map[string]string) string {
	w.step++
	w.lastPut = nil
	mk := func(tag, i int) *Rec {
		x := &Rec{Tag: tag, I: i, K: tag, KS: fmt.Sprint("key", tag), U8: uint8(tag), I64: int64(tag), F64: float64(tag), S: "v"}
		x.X = tag
		x.T = domT[2].AddDate(0, 0, tag)
		return x
	}
	ins := func(name string, tag int) string {
		x := mk(tag, tag)
		out := w.Insert(x)
		objs[name] = x.UUID()
		w.abs("ins" + name + ">" + out.Class)
		return "ins"
	}
	switch op {
	case "insA":
		return ins("A", 1)
	case "insB":
		return ins("B", 2)
	case "insC":
		return ins("C", 3)
	case "updA":
		x := w.callerCopy(objs["A"])
		x.I, x.S = x.I+10, "w" // moves inside the indexes
		out := w.Put(x, "update")
		w.abs("updA>" + out.Class)
		return "upd"
	case "many:updA+newB":
		x := w.callerCopy(objs["A"])
		x.I, x.S = x.I+10, "w"
		y := mk(2, 2)
		w.Many([]*Rec{x, y}, -1, "InsertOrUpdateMany")
		objs["B"] = y.UUID()
		w.abs("many:updA+newB")
		return "many"
	case "moveA":
		x := w.callerCopy(objs["A"])
		x.K = 50 // its unique value 1 becomes free
		out := w.Put(x, "update")
		w.abs("moveA>" + out.Class)
		return "upd"
	case "insBtakes":
		y := mk(2, 2)
		y.K = 1 // the value A held
		out := w.Insert(y)
		objs["B"] = y.UUID()
		w.abs("insBtakes>" + out.Class)
		return "ins"
	case "ins6":
		for i := 1; i <= 6; i++ {
			ins(fmt.Sprint("A", i), i)
		}
		return "ins"
	case "move6":
		for i := 1; i <= 6; i++ {
			x := w.callerCopy(objs[fmt.Sprint("A", i)])
			x.K = 50 + i
			w.Put(x, "update")
		}
		w.abs("move6")
		return "upd"
	case "takers6":
		for i := 1; i <= 6; i++ {
			y := mk(10+i, 10+i)
			y.K = i
			w.Insert(y)
			objs[fmt.Sprint("B", i)] = y.UUID()
		}
		w.abs("takers6")
		return "ins"
	case "delC":
		w.Delete(objs["C"])
		w.abs("delC")
		return "del"
	case "flushcommit":
		var err error
		w.call("FlushAllAndCommit", func() { err = w.db.FlushAllAndCommit(&Rec{}) })
		if err != nil {
			w.fail("flush-error", "Flush", "-", err.Error())
		}
		w.abs("flushcommit")
		return "flush"
	case "flushall":
		var err error
		w.call("FlushAll", func() { err = w.db.FlushAll(&Rec{}) })
		if err != nil {
			w.fail("flush-error", "Flush", "-", err.Error())
		}
		w.abs("flushall")
		return "flush"
	}
	panic("harness: unknown directed step " + op)
}

func runC05(k int, rng *Rng) CaseResult {
	var cfg Config
	directed := k < len(c05Directed)
	if directed {
		// fixed configuration: indexed fields that the scripted update moves
		cfg = Config{Ext: ".json", Fields: map[string]Cons{"I": {Index: true}, "S": {Index: true}, "K": {Index: true, Unique: true}, "T": {Index: true}}}
		if c05Directed[k].async {
			cfg.Async, cfg.Threshold, cfg.Timeout = 2, 50, time.Hour
		}
	} else {
		cfg = genConfig(rng, GenOpts{ForceSync: rng.P(0.75), UniqueBias: 0.2})
		if cfg.Async != 0 {
			cfg.Async = 2
			cfg.Threshold = pick(rng, []int{1, 3})
		}
		// the omitempty field is indexed often: a Repair that re-indexes several unindexed files
		// must give each entry the values of its own file (absent fields included)
		if rng.P(0.5) {
			c := cfg.Fields["O"]
			c.Index = true
			cfg.Fields["O"] = c
		}
	}
	root := caseDir(k, "c05")
	clockNewCase(clockModeFor(cfg))
	fsReset("snapshot", root)
	installHooks(fsHooks(true))
	w := NewWorld("C05", rng, cfg, root)
	w.storeWant = false
	defer w.Cleanup()
	infos := map[int]stepInfo{0: {kind: "create", before: map[string]string{}, after: map[string]string{}, touched: map[string]bool{}}}
	if !w.OpenCreate() {
		return w.finish(nil, false, nil)
	}
	o := HistOpts{MaxObjs: 8, Rec: RecOpts{ValidOnly: true, Simple: true}, BiasUnique: true,
		Mix: Mix{Ins: 30, Upd: 30, Noop: 2, Del: 12, Many: 10, Bulk: 3, SDel: 4, DelAll: 1, Create: 2, Reopen: 3, Flush: 4, Tick: 6}}
	steps := 4 + rng.Intn(5)
	names := map[string]string{}
	if directed {
		steps = len(c05Directed[k].steps)
		w.abs("directed:" + c05Directed[k].name)
	}
	for i := 1; i <= steps && !w.failed(); i++ {
		fsSetStep(i)
		before := w.m.Snapshot()
		var kind string
		if directed {
			kind = w.directedStep(c05Directed[k].steps[i-1], names)
		} else {
			kind = w.Step(o)
		}
		after := w.m.Snapshot()
		touched := modelsDiffer(before, after)
		allowed := map[string]map[string]bool{}
		for _, pr := range w.lastPut {
			if u := pr.X.UUID(); u != "" {
				touched[u] = true
				if allowed[u] == nil {
					allowed[u] = map[string]bool{}
				}
				allowed[u][canonJSON(pr.Want)] = true
			}
		}
		infos[i] = stepInfo{kind: kind, before: before, after: after, touched: touched, allowed: allowed}
	}
	// the final Close is an operation too
	if !w.failed() {
		fsSetStep(steps + 1)
		s := w.m.Snapshot()
		infos[steps+1] = stepInfo{kind: "reopen", before: s, after: s, touched: map[string]bool{}}
		var err error
		w.call("Close", func() { err = w.db.Close() })
		if err != nil {
			w.fail("close-failed", "Close", "-", err.Error())
		}
	}
	snaps := fsSnapshots()
	fsReset("", "")
	installHooks(stdHooks())
	if w.failed() {
		return w.finish(w.absOps, false, nil)
	}
	// ---- evaluate every distinct crash state ----
	seen := map[string]bool{}
	classes := map[string]int{}
	evaluated := 0
	var firstStates []string
	for i, snap := range snaps {
		key := fmt.Sprint(snap.Step, snap.Hash)
		if seen[key] {
			continue
		}
		seen[key] = true
		info, ok := infos[snap.Step]
		if !ok {
			continue
		}
		clockNewCase(clockModeFor(cfg))
		v, class := evalCrashState(k, i, rng, cfg, snap, info, w)
		evaluated++
		classes[class]++
		stats.Count("crash_states_evaluated", 1)
		stats.Count("crash_class_"+class, 1)
		stats.SetAdd("crash_points", fmt.Sprintf("%s/%s@%s", snap.Op, snap.Phase, snap.Site))
		if len(firstStates) < 12 {
			firstStates = append(firstStates, fmt.Sprintf("step %d (%s): %s %s %s -> %s", snap.Step, info.kind, snap.Op, snap.Phase, snap.Site, class))
		}
		if v != nil {
			dup := false
			for _, x := range w.viol {
				if x.Sig == v.Sig {
					dup = true
				}
			}
			if !dup {
				w.viol = append(w.viol, *v)
			}
			stats.Count("crash_states_violating", 1)
		}
		if w.incon != "" {
			break
		}
	}
	res := w.finish(w.absOps, evaluated >= 5, nil)
	if k < sampleMax {
		cl := []string{}
		for c, n := range classes {
			cl = append(cl, fmt.Sprintf("%s=%d", c, n))
		}
		sort.Strings(cl)
		res.Sample = map[string]interface{}{"config": cfg.String(), "ops": w.absOps, "crash_states_evaluated": evaluated, "classes": cl, "first_states": firstStates}
	}
	return res
}
