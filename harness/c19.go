package main

import (
	"bytes"
	"encoding/json"
	"fmt"
	"os"
	"path/filepath"
	"sort"
	"strings"
	"syscall"
	"time"

	"github.com/0xrawsec/sod"
)

// C19 — malformed files and arguments give errors, never panics or hangs (DESIGN 4/C19, M10).

const c19ArgCases = 60

func init() {
	drivers["C19"] = &driver{cases: func(t string) int {
		if t == "thorough" {
			return c19ArgCases*4 + 20000
		}
		return c19ArgCases + 1500
	}, run: runC19}
}

func cpuTime() time.Duration {
	var ru syscall.Rusage
	syscall.Getrusage(syscall.RUSAGE_SELF, &ru)
	return time.Duration(ru.Utime.Nano() + ru.Stime.Nano())
}

var abortChild = false

// guardedCall runs f under recover and a CPU-time hang guard (M10): a single
// API call on a tiny database that has burnt 20 CPU-seconds is a hang; a call
// blocked without CPU for 90 s of wall time is inconclusive. Either way the
// child cannot continue (the goroutine cannot be stopped).
func (w *World) guardedCall(api string, f func()) {
	if abortChild {
		return
	}
	done := make(chan bool, 1)
	start := cpuTime()
	wall := time.Now()
	go func() {
		done <- w.call(api, f)
	}()
	tick := time.NewTicker(50 * time.Millisecond)
	defer tick.Stop()
	for {
		select {
		case <-done:
			return
		case <-tick.C:
			if cpuTime()-start > 20*time.Second {
				w.fail("hang", api, "cpu", fmt.Sprintf("call still running after %v of CPU time", cpuTime()-start))
				abortChild = true
				return
			}
			if time.Since(wall) > 25*time.Second {
				w.incon = "API call blocked without consuming CPU: " + api
				abortChild = true
				return
			}
		}
	}
}

// ---- file mutations ----

type jpath struct {
	container interface{} // map[string]interface{} or []interface{} holder
	key       string
	idx       int
	isMap     bool
	parent    *jpath
}

// collectNodes lists every (container, key) position of a JSON tree.
func collectNodes(v interface{}, out *[]func(repl func(old interface{}) (interface{}, bool))) {
	switch x := v.(type) {
	case map[string]interface{}:
		keys := make([]string, 0, len(x))
		for k := range x {
			keys = append(keys, k)
		}
		sort.Strings(keys)
		for _, k := range keys {
			k := k
			*out = append(*out, func(repl func(old interface{}) (interface{}, bool)) {
				nv, keep := repl(x[k])
				if !keep {
					delete(x, k)
				} else {
					x[k] = nv
				}
			})
			collectNodes(x[k], out)
		}
	case []interface{}:
		for i := range x {
			i := i
			*out = append(*out, func(repl func(old interface{}) (interface{}, bool)) {
				nv, keep := repl(x[i])
				if keep {
					x[i] = nv
				} else {
					x[i] = nil
				}
			})
			collectNodes(x[i], out)
		}
	}
}

var replacements = []interface{}{
	nil, []interface{}{}, map[string]interface{}{}, "str", "", json.Number("-1"), json.Number("1.5"), json.Number("0"),
	json.Number("99999999999999999999"), json.Number("1e400"), true, []interface{}{json.Number("1")},
	[]interface{}{"a", json.Number("1"), json.Number("2")}, map[string]interface{}{"x": json.Number("1")},
}

func mutateJSONTree(r *Rng, root map[string]interface{}) string {
	var nodes []func(func(interface{}) (interface{}, bool))
	collectNodes(root, &nodes)
	if len(nodes) == 0 {
		return "noop"
	}
	n := nodes[r.Intn(len(nodes))]
	what := ""
	n(func(old interface{}) (interface{}, bool) {
		switch r.Intn(10) {
		case 0:
			what = "drop-node"
			return nil, false
		case 1:
			// array surgery
			if a, ok := old.([]interface{}); ok && len(a) > 0 {
				switch r.Intn(4) {
				case 0:
					what = "array-truncate"
					return a[:len(a)-1], true
				case 1:
					what = "array-duplicate-element"
					return append(append([]interface{}{}, a...), a[r.Intn(len(a))]), true
				case 2:
					what = "array-swap"
					b := append([]interface{}{}, a...)
					i, j := r.Intn(len(b)), r.Intn(len(b))
					b[i], b[j] = b[j], b[i]
					return b, true
				default:
					what = "array-extend"
					return append(append([]interface{}{}, a...), json.Number("7")), true
				}
			}
			fallthrough
		default:
			v := replacements[r.Intn(len(replacements))]
			what = fmt.Sprintf("replace-with-%T", v)
			return v, true
		}
	})
	return what
}

func renameKey(r *Rng, root map[string]interface{}) string {
	var maps []map[string]interface{}
	var walk func(v interface{})
	walk = func(v interface{}) {
		switch x := v.(type) {
		case map[string]interface{}:
			if len(x) > 0 {
				maps = append(maps, x)
			}
			keys := mapKeys(x)
			for _, k := range keys {
				walk(x[k])
			}
		case []interface{}:
			for _, e := range x {
				walk(e)
			}
		}
	}
	walk(root)
	if len(maps) == 0 {
		return "noop"
	}
	m := maps[r.Intn(len(maps))]
	keys := mapKeys(m)
	k := keys[r.Intn(len(keys))]
	v := m[k]
	delete(m, k)
	m[k+"x"] = v
	return "rename-key"
}

func targetedSchemaMutation(r *Rng, root map[string]interface{}) string {
	idx, _ := root["index"].(map[string]interface{})
	if idx == nil {
		return "noop" // an earlier mutation already replaced the index
	}
	ids, _ := idx["object-ids"].(map[string]interface{})
	if ids == nil {
		ids = map[string]interface{}{}
	}
	fields, _ := idx["fields"].(map[string]interface{})
	fkeys := mapKeys(fields)
	switch r.Intn(17) {
	case 0:
		for _, v := range ids {
			ids["9999"] = v // the same uuid under two ids
			return "duplicate-uuid-two-ids"
		}
	case 1:
		if len(fkeys) > 0 {
			fm, _ := fields[fkeys[r.Intn(len(fkeys))]].(map[string]interface{})
			if fm != nil {
				fm["cast"] = pick(r, []interface{}{"complex128", "", "int", json.Number("3"), nil})
				return "unknown-cast"
			}
		}
	case 2:
		if aw, ok := root["async-writes"].(map[string]interface{}); ok {
			aw["timeout"] = pick(r, []interface{}{"xyz", "", json.Number("5"), nil, "-1h"})
			return "bad-duration"
		}
		root["async-writes"] = map[string]interface{}{"enable": true, "threshold": json.Number("-5"), "timeout": "zz"}
		return "bad-duration"
	case 3:
		if len(fkeys) > 0 {
			fm, _ := fields[fkeys[r.Intn(len(fkeys))]].(map[string]interface{})
			if tuples, ok := fm["index"].([]interface{}); ok && len(tuples) > 0 {
				i := r.Intn(len(tuples))
				tuples[i] = pick(r, []interface{}{[]interface{}{}, []interface{}{json.Number("1")}, []interface{}{json.Number("1"), json.Number("2"), json.Number("3")},
					[]interface{}{json.Number("1"), "id"}, []interface{}{json.Number("1"), json.Number("-4")}, []interface{}{json.Number("1"), json.Number("2.5")},
					[]interface{}{nil, nil}, []interface{}{map[string]interface{}{}, json.Number("0")}, []interface{}{true, json.Number("777777")}, "tuple", nil})
				return "bad-tuple"
			}
		}
	case 4:
		if len(fkeys) > 0 {
			fm, _ := fields[fkeys[r.Intn(len(fkeys))]].(map[string]interface{})
			if tuples, ok := fm["index"].([]interface{}); ok && len(tuples) > 1 {
				tuples[0], tuples[len(tuples)-1] = tuples[len(tuples)-1], tuples[0]
				return "unsorted-index"
			}
		}
	case 5:
		if len(fkeys) > 0 {
			fm, _ := fields[fkeys[r.Intn(len(fkeys))]].(map[string]interface{})
			if tuples, ok := fm["index"].([]interface{}); ok && len(tuples) > 0 {
				if t, ok := tuples[r.Intn(len(tuples))].([]interface{}); ok && len(t) == 2 {
					t[0] = pick(r, []interface{}{"string-for-number", json.Number("1.5"), json.Number("-1"), json.Number("1e400"), true, nil, []interface{}{}})
					return "mistyped-index-value"
				}
			}
		}
	case 6:
		idx["object-ids"] = pick(r, []interface{}{nil, []interface{}{}, "x", map[string]interface{}{"notanumber": "u", "-3": "v", "1.5": "w"}})
		return "bad-object-ids"
	case 7:
		root["index"] = pick(r, []interface{}{nil, "x", []interface{}{}, map[string]interface{}{}, map[string]interface{}{"fields": nil, "object-ids": nil}})
		return "bad-index"
	case 8:
		root["fields"] = pick(r, []interface{}{nil, "x", map[string]interface{}{}, map[string]interface{}{"I": "notadescriptor"}})
		return "bad-fields"
	// cross-reference mutations: every part stays well formed, the parts stop agreeing
	case 9, 10:
		if len(fkeys) > 0 {
			fm, _ := fields[fkeys[r.Intn(len(fkeys))]].(map[string]interface{})
			if fm != nil {
				descs, _ := root["fields"].(map[string]interface{})
				names := []interface{}{"Nope", "", nil, json.Number("1"), "N", "Tags"}
				for _, k := range mapKeys(descs) {
					names = append(names, k, k, k) // mostly: the name of another real field
				}
				fm["name"] = names[r.Intn(len(names))]
				return "index-name-other-field"
			}
		}
	case 11:
		if len(fkeys) > 1 {
			a, b := fkeys[r.Intn(len(fkeys))], fkeys[r.Intn(len(fkeys))]
			fields[a], fields[b] = fields[b], fields[a]
			return "field-indexes-swapped"
		}
	case 12:
		if descs, ok := root["fields"].(map[string]interface{}); ok && len(descs) > 0 {
			dk := mapKeys(descs)
			d, _ := descs[dk[r.Intn(len(dk))]].(map[string]interface{})
			if d != nil {
				if r.Bool() {
					d["path"] = pick(r, []interface{}{dk[r.Intn(len(dk))], "Nope", "", nil})
					return "descriptor-path-other-field"
				}
				d["type"] = pick(r, []interface{}{"string", "int", "time.Time", "float64", "*int", "", nil})
				return "descriptor-type-changed"
			}
		}
	case 14:
		// one object consistently renumbered to the greatest id there is
		for id := range ids {
			ids["18446744073709551615"] = ids[id]
			delete(ids, id)
			for _, fk := range fkeys {
				fm, _ := fields[fk].(map[string]interface{})
				tuples, _ := fm["index"].([]interface{})
				for _, t := range tuples {
					if tt, ok := t.([]interface{}); ok && len(tt) == 2 {
						if n, ok := tt[1].(json.Number); ok && n.String() == id {
							tt[1] = json.Number("18446744073709551615")
						}
					}
				}
			}
			return "greatest-object-id"
		}
	case 15:
		if descs, ok := root["fields"].(map[string]interface{}); ok && len(descs) > 0 {
			dk := mapKeys(descs)
			// prefer a descriptor whose type cannot be indexed
			var cands []string
			for _, k := range dk {
				if d, ok := descs[k].(map[string]interface{}); ok {
					if t, _ := d["type"].(string); t == "bool" || strings.HasPrefix(t, "[]") || strings.HasPrefix(t, "map") || strings.HasPrefix(t, "*") || t == "interface {}" {
						cands = append(cands, k)
					}
				}
			}
			if len(cands) == 0 || r.P(0.3) {
				cands = dk
			}
			if d, ok := descs[cands[r.Intn(len(cands))]].(map[string]interface{}); ok {
				// any combination a file can hold, the ones the library never writes included
				// (unique without index)
				c := map[string]interface{}{"index": true, "unique": r.Bool()}
				if r.P(0.4) {
					c = map[string]interface{}{"unique": true}
					if r.Bool() {
						c["index"] = pick(r, []interface{}{false, nil})
					}
				}
				d["constraints"] = c
				return "constraint-on-any-descriptor"
			}
		}
	case 16:
		root["extension"] = pick(r, []interface{}{"/..", "/x", "a/b.json", "..", "", "/", nil, json.Number("3")})
		return "extension-as-path"
	case 13:
		if len(fkeys) > 0 {
			fm, _ := fields[fkeys[r.Intn(len(fkeys))]].(map[string]interface{})
			if tuples, ok := fm["index"].([]interface{}); ok && len(tuples) > 0 {
				if t, ok := tuples[r.Intn(len(tuples))].([]interface{}); ok && len(t) == 2 {
					t[1] = pick(r, []interface{}{json.Number("999"), json.Number("18446744073709551615")})
					return "dangling-object-id"
				}
			}
		}
	}
	return "noop"
}

func mutateBytes(r *Rng, b []byte) ([]byte, string) {
	switch r.Intn(7) {
	case 0:
		return nil, "truncate-0"
	case 1:
		if len(b) > 0 {
			return b[:1], "truncate-1"
		}
	case 2:
		return b[:len(b)/2], "truncate-half"
	case 3:
		if len(b) > 0 {
			return b[:len(b)-1], "truncate-last"
		}
	case 4:
		if len(b) > 0 {
			c := append([]byte(nil), b...)
			c[r.Intn(len(c))] ^= 1 << uint(r.Intn(8))
			return c, "bitflip"
		}
	case 5:
		if len(b) > 4 {
			c := append([]byte(nil), b...)
			i := r.Intn(len(c) - 3)
			c[i], c[i+1], c[i+2] = 0, 0, 0
			return c, "nul-run"
		}
	case 6:
		return append(append([]byte(nil), b...), []byte("}{garbage")...), "append-garbage"
	}
	return []byte{0}, "single-nul"
}

// applyMutation damages the closed directory; returns a class name.
func applyMutation(r *Rng, dir string, cfg Config, uuids []string, touched map[string]bool) string {
	schemaPath := filepath.Join(dir, "schema.json")
	suffix := cfg.Ext
	if cfg.Compress {
		suffix += ".gz"
	}
	switch r.Intn(10) {
	case 0, 1: // byte level on schema.json
		b, _ := os.ReadFile(schemaPath)
		nb, what := mutateBytes(r, b)
		os.WriteFile(schemaPath, nb, 0o700)
		return "schema:" + what
	case 2: // byte level on an object file
		if len(uuids) == 0 {
			return "noop"
		}
		tu := pick(r, uuids)
		touched[tu] = true
		p := filepath.Join(dir, tu+suffix)
		b, _ := os.ReadFile(p)
		nb, what := mutateBytes(r, b)
		os.WriteFile(p, nb, 0o700)
		return "object:" + what
	case 3, 4, 5, 6: // structure level on schema.json
		what := ""
		editSchema(dir, func(s map[string]interface{}) error {
			switch r.Intn(4) {
			case 0:
				what = mutateJSONTree(r, s)
			case 1:
				what = renameKey(r, s)
			default:
				what = targetedSchemaMutation(r, s)
			}
			return nil
		})
		return "schema-json:" + what
	case 7: // structurally valid but ill-shaped object file
		if len(uuids) == 0 {
			return "noop"
		}
		u := pick(r, uuids)
		touched[u] = true
		content := pick(r, []string{`null`, `[]`, `"x"`, `{"I":"notanumber"}`, `{"T":"notatime"}`, `{"N":5}`, `{"I":1e400}`, `{"Tags":{"a":1}}`, `{}`, `{"I8":300}`})
		x := []byte(content)
		if cfg.Compress {
			if r.Bool() {
				os.WriteFile(filepath.Join(dir, u+suffix), x, 0o700) // not gzip at all
				return "object:plain-in-gz"
			}
			var buf bytes.Buffer
			tmp := &Rec{}
			tmp.Initialize(u)
			_ = tmp
			writeGz(&buf, x)
			x = buf.Bytes()
			if r.P(0.3) && len(x) > 8 {
				x = x[:len(x)-4] // bad gzip trailer
				os.WriteFile(filepath.Join(dir, u+suffix), x, 0o700)
				return "object:gzip-trailer"
			}
		}
		os.WriteFile(filepath.Join(dir, u+suffix), x, 0o700)
		return "object:ill-shaped-json"
	default: // stray entries
		switch r.Intn(7) {
		case 0:
			os.WriteFile(filepath.Join(dir, "README"), []byte("x"), 0o600)
			return "stray:no-dot"
		case 1:
			os.Mkdir(filepath.Join(dir, "subdir"), 0o700)
			return "stray:subdir"
		case 2:
			os.WriteFile(filepath.Join(dir, "0f0e0d0c-0000-4000-8000-000000000001.foreign"), []byte("{}"), 0o600)
			return "stray:foreign-ext"
		case 3:
			os.WriteFile(filepath.Join(dir, "0F0E0D0C-0000-4000-8000-00000000000A"+suffix), []byte("{}"), 0o600)
			return "stray:upper-uuid"
		case 4:
			os.Symlink(filepath.Join(dir, "nowhere"), filepath.Join(dir, "0f0e0d0c-0000-4000-8000-000000000002"+suffix))
			return "stray:dangling-symlink"
		case 5:
			os.Mkdir(filepath.Join(dir, "0f0e0d0c-0000-4000-8000-000000000003"+suffix), 0o700)
			return "stray:dir-named-like-object"
		default:
			os.WriteFile(filepath.Join(dir, ".hidden"), []byte("x"), 0o600)
			os.WriteFile(filepath.Join(dir, "schema.json.bak"), []byte("x"), 0o600)
			return "stray:dotfiles"
		}
	}
}

// validResults: "an error of the documented class or a valid result". When only object files were
// damaged (schema.json and the directory listing are as Close left them), a read that reports no
// error must still account for every undamaged object: a result that silently lacks an undamaged
// match, or holds an undamaged non-match, is neither an error nor a valid result. What the damaged
// files contribute is not judged (their bytes may decode to anything).
func (w *World) validResults(touched map[string]bool) {
	judge := func(api, desc string, want map[string]bool, objs []sod.Object) {
		got := map[string]bool{}
		for _, o := range objs {
			if o != nil {
				got[o.UUID()] = true
			}
		}
		stats.Count("valid_result_checks", 1)
		for u := range want {
			if !touched[u] && !got[u] {
				w.fail("silently-partial-result", api, "-", fmt.Sprintf("%s reported no error but lacks the undamaged matching object %s (%d returned, %d undamaged matches)", desc, w.name(u), len(objs), len(want)))
				return
			}
		}
		for u := range got {
			if _, live := w.m.objs[u]; live && !touched[u] && !want[u] {
				w.fail("objects-not-matching", api, "-", fmt.Sprintf("%s returned the undamaged object %s which does not satisfy it", desc, w.name(u)))
				return
			}
		}
	}
	all := map[string]bool{}
	for u := range w.m.objs {
		all[u] = true
	}
	var objs []sod.Object
	var err error
	w.guardedCall("All", func() { objs, err = w.db.All(&Rec{}) })
	if w.failed() {
		return
	}
	if err == nil {
		judge("All", "All", all, objs)
	}
	qs := w.evaluable(w.queriesFor([]string{"I", "S", "K", "U64", "N.A", "Up", "T", "F64"}))
	for i := 0; i < 24 && len(qs) > 0 && !w.failed(); i++ {
		q := qs[w.rng.Intn(len(qs))]
		want, ok := w.m.Eval(q)
		if !ok {
			continue
		}
		desc := q.String()
		var q2 *Query
		if w.rng.P(0.35) {
			c := qs[w.rng.Intn(len(qs))]
			if set, ok := w.m.Eval(c); ok {
				q2 = &c
				for u := range want {
					if !set[u] {
						delete(want, u)
					}
				}
				desc += " AND " + c.String()
			}
		}
		objs, err = nil, nil
		w.guardedCall("Search", func() {
			s := w.db.Search(&Rec{}, q.Path, q.Op, q.Probe)
			if q2 != nil {
				s = s.And(q2.Path, q2.Op, q2.Probe)
			}
			if err = s.Err(); err != nil {
				return
			}
			objs, err = s.Collect()
		})
		if w.failed() {
			return
		}
		if err == nil {
			api := "Search(unindexed)"
			if w.cfg.indexed(q.Path) {
				api = "Search(indexed)"
			}
			if q2 != nil {
				api += ".And"
			}
			judge(api, desc, want, objs)
		}
	}
}

// battery calls every API method on the handle; errors are fine.
func (w *World) battery(uuids []string) {
	g := w.guardedCall
	rec := func() *Rec { return &Rec{} }
	g("Schema", func() { w.db.Schema(rec()) })
	g("Count", func() { w.db.Count(rec()) })
	g("All", func() { w.db.All(rec()) })
	g("AssignAll", func() { var t []*Rec; w.db.AssignAll(rec(), &t) })
	for i, u := range uuids {
		if i >= 3 {
			break
		}
		u := u
		g("Get", func() { x := rec(); x.Initialize(u); w.db.Get(x) })
		g("GetByUUID", func() { w.db.GetByUUID(rec(), u) })
		g("Exist", func() { x := rec(); x.Initialize(u); w.db.Exist(x) })
	}
	g("Get", func() { x := rec(); x.Initialize(w.absentUUID()); w.db.Get(x) })
	paths := []string{"I", "S", "T", "K", "N.A", "U64", "F64", "Up"}
	for _, p := range paths {
		p := p
		f := recFieldByPath[p]
		probe := zeroProbe(f)
		for _, op := range []string{"=", "<", ">=", "!="} {
			op := op
			g("Search", func() {
				s := w.db.Search(rec(), p, op, probe)
				s.Len()
				s.Err()
				s.Collect()
				s.And("I", "<=", 1).Or("S", "~=", "a").Collect()
				w.db.Search(rec(), p, op, probe).One()
				var t []*Rec
				w.db.Search(rec(), p, op, probe).Reverse().Limit(2).Assign(&t)
			})
		}
		g("AssignIndex", func() { w.assignIndex(p) })
	}
	g("Iterator", func() { w.db.Iterator(rec()) })
	g("InsertOrUpdate", func() { w.db.InsertOrUpdate(genRec(w.rng, 900, RecOpts{ValidOnly: true, Simple: true})) })
	g("InsertOrUpdateMany", func() {
		w.db.InsertOrUpdateMany(genRec(w.rng, 901, RecOpts{ValidOnly: true, Simple: true}), genRec(w.rng, 902, RecOpts{ValidOnly: true, Simple: true}))
	})
	if len(uuids) > 0 {
		g("InsertOrUpdate(update)", func() {
			x := genRec(w.rng, 903, RecOpts{ValidOnly: true, Simple: true})
			x.Initialize(uuids[0])
			w.db.InsertOrUpdate(x)
		})
		g("Delete", func() { x := rec(); x.Initialize(uuids[len(uuids)-1]); w.db.Delete(x) })
	}
	g("Search.Delete", func() { w.db.Search(rec(), "I", "=", 1).Delete() })
	g("Control", func() { w.db.Control() })
	g("Repair", func() { w.db.Repair(rec()) })
	g("Control", func() { w.db.Control() })
	g("Count", func() { w.db.Count(rec()) })
	g("All", func() { w.db.All(rec()) })
	g("Create", func() { w.db.Create(rec(), schemaFor(w.cfg, rec())) })
	g("FlushAll", func() { w.db.FlushAll(rec()) })
	g("FlushAllAndCommit", func() { w.db.FlushAllAndCommit(rec()) })
	g("Commit", func() { w.db.Commit(rec()) })
	if w.cfg.Async != 0 && !w.failed() && !abortChild {
		// let the background routine work on whatever was loaded and accepted
		g("InsertOrUpdate", func() { w.db.InsertOrUpdate(genRec(w.rng, 904, RecOpts{ValidOnly: true, Simple: true})) })
		for i := 0; i < 3; i++ {
			clockTick()
		}
	}
	g("DeleteAll", func() { w.db.DeleteAll(rec()) })
	g("Close", func() { w.db.Close() })
}

func runC19(k int, rng *Rng) CaseResult {
	nArg := c19ArgCases
	if tier == "thorough" {
		nArg *= 4
	}
	if k < nArg {
		return runC19Args(k, rng)
	}
	cfg := genConfig(rng, GenOpts{})
	if cfg.Async == 2 {
		cfg.Async = 1
	}
	clockNewCase(clockModeFor(cfg))
	lockmonReset(true) // a lock leaked by an error path is a hang waiting to happen
	lockmonLight()
	installHooks(lockHooks())
	defer lockmonReset(false)
	w := NewWorld("C19", rng, cfg, caseDir(k, "c19"))
	defer w.Cleanup()
	if !w.OpenCreate() {
		return w.finish(nil, false, nil)
	}
	o := HistOpts{Steps: 2 + rng.Intn(8), MaxObjs: 8, Rec: RecOpts{ValidOnly: true, Simple: true}, Mix: Mix{Ins: 70, Upd: 20, Del: 5}}
	if k%7 == 0 {
		o.Steps = 0
	}
	w.Run(o)
	var err error
	w.call("Close", func() { err = w.db.Close() })
	if w.failed() || err != nil {
		return w.finish(nil, false, nil)
	}
	clockSettle()
	uuids := w.m.Live()
	// 1-2 mutations
	var muts []string
	touched := map[string]bool{}
	for i := 0; i < 1+rng.Intn(2); i++ {
		muts = append(muts, applyMutation(rng, w.collDir(), cfg, uuids, touched))
	}
	objectOnly := len(touched) > 0
	for _, m := range muts {
		objectOnly = objectOnly && (strings.HasPrefix(m, "object:") || m == "noop")
	}
	w.logf("mutations: %v", muts)
	w.abs(fmt.Sprint(muts))
	for i := range w.viol {
		_ = i
	}
	// fresh handle; the site of a panic is the signature's last component
	w.Open()
	w.step++
	stats.SetAdd("mutation_classes", strings.Join(muts, "+"))
	if objectOnly {
		w.validResults(touched)
	}
	if !w.failed() {
		w.battery(uuids)
	}
	// the flusher may have died with the directory; make sure it is parked
	clockSettle()
	res := w.finish(w.absOps, true, nil)
	if k < nArg+4 {
		res.Sample = map[string]interface{}{"config": cfg.String(), "content_ops": w.absOps[:len(w.absOps)-1], "mutations": muts}
	}
	if abortChild {
		emitAbort(res, k)
	}
	return res
}

// emitAbort: the child cannot continue after a hang; it reports the case and
// exits, the runner resumes after this case.
func emitAbort(res CaseResult, k int) {
	res.Type, res.Prop, res.Case = "case", "C19", k
	if len(res.Violations) > 0 {
		res.Verdict = "violation"
	} else {
		res.Verdict = "inconclusive"
	}
	emit(res)
	finishChild()
	os.Exit(0)
}

// ---- arguments ----

type probeKind struct {
	name string
	v    interface{}
}

func argProbes() []probeKind {
	i := 1
	var nilPtr *int
	return []probeKind{
		{"int", int(1)}, {"int8", int8(1)}, {"int16", int16(1)}, {"int32", int32(1)}, {"int64", int64(1)},
		{"uint", uint(1)}, {"uint8", uint8(1)}, {"uint16", uint16(1)}, {"uint32", uint32(1)}, {"uint64", uint64(1)},
		{"float32", float32(1)}, {"float64", float64(1)}, {"string", "a"}, {"badpattern", "(["}, {"time", time.Unix(0, 1).UTC()},
		{"bool", true}, {"nil", nil}, {"struct", struct{ A int }{1}}, {"slice", []int{1}}, {"ptr", &i}, {"nilptr", nilPtr},
		{"map", map[string]int{"a": 1}}, {"complex", complex(1, 1)}, {"bytes", []byte("a")}, {"rune", 'a'}, {"iface-string", interface{}("a")},
	}
}

var argFields = []string{"I", "S", "T", "F64", "U8", "K", "N.A", "N.S", "N.P.E", "Emb.X", "X", // known
	"", "Nope", "N.Nope", "N", "N.P", "PP", "AP", "Tags", "M", "Any", "I.X", "N.A.B", "S.", ".S", "N..A", "Item", "Emb", "item.uuid"}

var argOps = []string{"=", "!=", "<", "<=", ">", ">=", "~=", "", "<>", "==", " =", "=~", "and"}

func runC19Args(k int, rng *Rng) CaseResult {
	cfg := genConfig(rng, GenOpts{IndexBias: 0.5})
	if cfg.Async == 2 {
		cfg.Async = 1
	}
	clockNewCase(clockModeFor(cfg))
	lockmonReset(true)
	lockmonLight()
	installHooks(lockHooks())
	defer lockmonReset(false)
	w := NewWorld("C19", rng, cfg, caseDir(k, "c19a"))
	w.storeWant = false
	defer w.Cleanup()
	if !w.OpenCreate() {
		return w.finish(nil, false, nil)
	}
	if k%3 != 0 { // every third case: empty collection
		w.Run(HistOpts{Steps: 2 + rng.Intn(8), MaxObjs: 8, Rec: RecOpts{ValidOnly: true}, Mix: Mix{Ins: 80, Upd: 15, Del: 5}})
	}
	probes := argProbes()
	triples := 0
	check := func(api string, q Query, s *sod.Search) {
		// a search that reports no error must only return objects that satisfy
		// the predicate under the model; an unevaluable query has no members
		if s == nil {
			return
		}
		var objs []sod.Object
		var err error
		w.guardedCall(api+".Collect", func() {
			if err = s.Err(); err != nil {
				return
			}
			objs, err = s.Collect()
		})
		if err != nil || w.failed() {
			return
		}
		want, evaluable := w.m.Eval(q)
		for _, o := range objs {
			if !evaluable {
				w.fail("objects-for-unevaluable-query", api, argClass(q), fmt.Sprintf("%s returned %d objects without error although it cannot be evaluated", q, len(objs)))
				return
			}
			if !want[o.UUID()] {
				w.fail("objects-not-matching", api, argClass(q), fmt.Sprintf("%s returned %s which does not satisfy it", q, short(o.UUID())))
				return
			}
		}
	}
	for _, f := range argFields {
		for _, op := range argOps {
			for _, p := range probes {
				// the full cross product is 29*13*26; each case takes a PRNG slice of it
				if !rng.P(0.06) {
					continue
				}
				if abortChild || w.failed() {
					break
				}
				triples++
				q := Query{f, op, p.v}
				stats.SetAdd("arg_triples", fmt.Sprintf("%s|%s|%s", fieldClass(f), op, p.name))
				w.logf("Search(%q, %q, %s)", f, op, p.name)
				var s *sod.Search
				w.guardedCall("Search", func() { s = w.db.Search(&Rec{}, f, op, p.v) })
				check("Search", q, s)
				if w.failed() {
					break
				}
				// as a refinement of a valid search
				var s2 *sod.Search
				w.guardedCall("Search.And", func() { s2 = w.db.Search(&Rec{}, "Tag", ">=", 0).And(f, op, p.v) })
				check("And", q, s2)
				w.guardedCall("Search.Or", func() { s2 = w.db.Search(&Rec{}, "Tag", "<", 0).Or(f, op, p.v) })
				check("Or", q, s2)
				w.guardedCall("Search.Operation", func() {
					s2 = w.db.Search(&Rec{}, "Tag", ">=", 0).Operation(pick(rng, []string{"and", "&&", "xor", ""}), f, op, p.v)
					s2.Len()
					s2.One()
				})
			}
		}
	}
	if !w.failed() {
		w.SearchSweep(20)
	}
	// field names of a type with pointer fields, a named string and a struct embedded through a
	// (nil or set) pointer, whose field is also reachable under its promoted name: no judgement of
	// the answers, the panic / hang guards watch
	if k%4 == 1 && !w.failed() {
		sch := sod.DefaultSchema
		sch.Cache, sch.Compress = cfg.Cache, cfg.Compress
		var e error
		w.guardedCall("Create(PtrRec)", func() { e = w.db.Create(&PtrRec{}, sch) })
		v := "x"
		objs := []*PtrRec{{K: 1}, {K: 2, PEmb: &PEmb{EY: 3}, PS: &v, PN: &PNest{S: "s"}, NS: "n"}}
		for _, o := range objs {
			if e == nil && !w.failed() {
				o := o
				w.guardedCall("InsertOrUpdate(PtrRec)", func() { e = w.db.InsertOrUpdate(o) })
			}
		}
		for _, f := range []string{"EY", "PEmb.EY", "PEmb", "PS", "PN.PS", "PN", "V", "V.S", "NS", "K", "Item", "PEmb.Nope", "EY.X"} {
			for _, op := range []string{"=", "!=", "<", "~=", "<>"} {
				for _, p := range probes {
					if !rng.P(0.12) || abortChild || w.failed() || e != nil {
						continue
					}
					triples++
					stats.SetAdd("arg_triples", fmt.Sprintf("PtrRec.%s|%s|%s", f, op, p.name))
					w.logf("Search(PtrRec, %q, %q, %s)", f, op, p.name)
					w.guardedCall("Search", func() {
						s := w.db.Search(&PtrRec{}, f, op, p.v)
						s.Len()
						s.Collect()
						s.And(f, op, p.v).One()
						w.db.Search(&PtrRec{}, "K", ">=", 0).And(f, op, p.v).Or(f, op, p.v).Len()
					})
				}
			}
		}
	}
	res := w.finish(append(w.absOps, fmt.Sprint(k)), triples > 0, nil)
	if k < 2 {
		res.Sample = map[string]interface{}{"config": cfg.String(), "objects": w.m.Len(), "argument_triples_tried": triples, "fields": argFields, "operators": argOps}
	}
	if abortChild {
		emitAbort(res, k)
	}
	return res
}

func fieldClass(f string) string { return f }

func argClass(q Query) string {
	return fmt.Sprintf("field=%q,op=%q,probe=%T", q.Path, q.Op, q.Probe)
}
