package main

import (
	"fmt"
	"math"
	"sort"
	"strings"
	"time"

	"github.com/0xrawsec/sod"
)

// ---- configuration ----

// UniqueOnly: the field is declared to sod with Unique set and Index clear (only possible through a
// custom schema; sod still builds a field index for it). The harness keeps Index=true for such fields.
type Cons struct{ Index, Unique, Upper, Lower, UniqueOnly bool }

type Config struct {
	Cache     bool
	Compress  bool
	Async     int // 0 off, 1 on with frozen flusher (virtual clock never ticks unless asked), 2 ticking
	Threshold int
	Timeout   time.Duration
	LowerName bool
	Ext       string
	Fields    map[string]Cons // path -> constraints (absent = none)
}

func (c Config) String() string {
	var fs []string
	for p, k := range c.Fields {
		s := p + ":"
		if k.Unique && k.UniqueOnly {
			s += "qo"
		} else if k.Unique {
			s += "q"
		} else if k.Index {
			s += "i"
		}
		if k.Upper {
			s += "U"
		}
		if k.Lower {
			s += "L"
		}
		fs = append(fs, s)
	}
	sort.Strings(fs)
	return fmt.Sprintf("cache=%v gz=%v async=%d(th=%d,to=%s) lower=%v ext=%s fields=[%s]",
		c.Cache, c.Compress, c.Async, c.Threshold, c.Timeout, c.LowerName, c.Ext, strings.Join(fs, " "))
}

// Class is the configuration class used in violation signatures.
func (c Config) Class() string {
	var p []string
	if c.Cache {
		p = append(p, "cache")
	}
	if c.Compress {
		p = append(p, "gz")
	}
	if c.Async != 0 {
		p = append(p, "async")
	}
	if len(p) == 0 {
		return "sync"
	}
	return strings.Join(p, "+")
}

func (c Config) indexed(path string) bool {
	k := c.Fields[path]
	return k.Index || k.Unique
}

func (c Config) uniquePathsSorted() []string {
	var out []string
	for p, k := range c.Fields {
		if k.Unique {
			out = append(out, p)
		}
	}
	sort.Strings(out)
	return out
}

// canon applies the path's case constraint the way the statement of C16
// defines it (ToUpper / ToLower).
func (c Config) canon(path, s string) string {
	k := c.Fields[path]
	if k.Upper {
		s = strings.ToUpper(s)
	}
	if k.Lower {
		s = strings.ToLower(s)
	}
	return s
}

var exts = []string{".json", ".obj", ".v1.dat", ".gz", ".data.gz"} // the last two: a name ending like compressed files, compressed or not

type GenOpts struct {
	ForceSync   bool
	ForceAsync  bool
	NoLowerName bool
	UniqueBias  float64 // probability that each unique candidate is unique
	IndexBias   float64
	CaseBias    float64
	NoUnique    bool
}

func genConfig(r *Rng, o GenOpts) Config {
	c := Config{Ext: ".json", Fields: map[string]Cons{}}
	c.Cache = r.P(0.4)
	c.Compress = r.P(0.3)
	if !o.ForceSync && (o.ForceAsync || r.P(0.3)) {
		c.Async = 1 + r.Intn(2)
		c.Threshold = pick(r, []int{1, 3, 50})
		c.Timeout = pick(r, []time.Duration{100 * time.Millisecond, 300 * time.Millisecond, time.Hour})
	}
	if !o.NoLowerName {
		c.LowerName = r.P(0.2)
	}
	if r.P(0.35) {
		c.Ext = pick(r, exts)
	}
	ib := o.IndexBias
	if ib == 0 {
		ib = 0.45
	}
	for _, f := range recFields {
		if !f.Desc {
			continue
		}
		if r.P(ib) {
			k := c.Fields[f.Path]
			k.Index = true
			c.Fields[f.Path] = k
		}
	}
	ub := o.UniqueBias
	if ub == 0 {
		ub = 0.3
	}
	if !o.NoUnique {
		for _, p := range uniquePaths {
			if r.P(ub) {
				k := c.Fields[p]
				k.Index, k.Unique = true, true
				k.UniqueOnly = r.P(0.4)
				c.Fields[p] = k
			}
		}
	}
	cb := o.CaseBias
	if cb == 0 {
		cb = 0.4
	}
	for _, p := range casePaths {
		if r.P(cb) {
			k := c.Fields[p]
			if r.Bool() {
				k.Upper = true
			} else {
				k.Lower = true
			}
			c.Fields[p] = k
		}
	}
	for p, k := range c.Fields {
		if k == (Cons{}) {
			delete(c.Fields, p)
		}
	}
	return c
}

// schemaFor builds a fresh sod.Schema value for Rec. A Schema value from
// NewCustomSchema must be used for one Create only (DESIGN 3.8).
func schemaFor(c Config, of sod.Object) sod.Schema {
	fds := sod.FieldDescriptors(of)
	paths := make([]string, 0, len(c.Fields))
	for p := range c.Fields {
		paths = append(paths, p)
	}
	sort.Strings(paths)
	for _, p := range paths {
		k := c.Fields[p]
		if err := fds.Constraint(p, sod.Constraints{Index: (k.Index || k.Unique) && !(k.Unique && k.UniqueOnly), Unique: k.Unique, Upper: k.Upper, Lower: k.Lower}); err != nil {
			panic("harness: " + err.Error())
		}
	}
	s := sod.NewCustomSchema(fds, c.Ext)
	s.Cache = c.Cache
	s.Compress = c.Compress
	if c.Async != 0 {
		s.Asynchrone(c.Threshold, c.Timeout)
	}
	return s
}

// ---- value domains: tiny, so that ties, conflicts and boundaries are dense ----

var (
	domI   = []int{-3, 0, 1, 2, 7}
	domI8  = []int8{-128, -1, 0, 5, 127}
	domI16 = []int16{-32768, -2, 0, 300, 32767}
	domI32 = []int32{math.MinInt32, -1, 0, 1, math.MaxInt32}
	domI64 = []int64{math.MinInt64, -(1<<53 + 1), -1, 0, 1, 1<<53 + 1, 1<<60 + 1, math.MaxInt64 - 1, math.MaxInt64}
	domU   = []uint{0, 1, 2, 1 << 40}
	domU8  = []uint8{0, 1, 2, 3, 255}
	domU16 = []uint16{0, 1, 65535}
	domU32 = []uint32{0, 7, math.MaxUint32}
	domU64 = []uint64{0, 1, 1<<53 + 1, 1<<63 + 1, math.MaxUint64 - 1, math.MaxUint64}
	domF32 = []float32{-1.25, 0, 1.25, 3.4e38, 1e-45}
	domF64 = []float64{-math.MaxFloat64, -1.5, math.Copysign(0, -1), 0, 5e-324, 1.5, 9007199254740993, math.MaxFloat64}
	domS   = []string{"", "a", "b", "ab", "a\x00", "é", "zz", "B"}
	domT   = []time.Time{
		{},
		time.Unix(0, 1).UTC(),
		time.Date(2021, 3, 4, 5, 6, 7, 123456789, time.UTC),
		time.Date(2021, 3, 4, 5, 6, 7, 123456790, time.UTC),
		time.Date(2021, 3, 4, 7, 6, 7, 123456789, time.FixedZone("x", 7200)),
		time.Date(2200, 1, 1, 0, 0, 0, 999999999, time.UTC),
		time.Date(1700, 1, 1, 0, 0, 0, 5, time.UTC),
	}
	domCase = []string{"", "abc", "ABC", "aBc", "ǅ", "ß", "İ", "ı", "Σσς", "K", "straße"}
	domK    = []int{0, 1, 2, 3, 4, 5}
	domKS   = []string{"k0", "K0", "k1", "k2", "K2", "k3", "ǅ", "ǆ"}
	domTr   = []string{"", "x", " x", "x ", " x y "}
)

func ptrInt(v int) *int { return &v }

func genNested(r *Rng) *Nested {
	if r.P(0.3) {
		return nil
	}
	n := &Nested{A: pick(r, domI64), S: pick(r, domCase), In: Inner{D: pick(r, domI), E: pick(r, domCase), F: pick(r, domF64)}}
	if r.P(0.6) {
		n.P = &Inner{D: pick(r, domI), E: pick(r, domCase), F: pick(r, domF64)}
	}
	return n
}

func genSub(r *Rng) *Sub {
	if r.P(0.15) {
		return nil
	}
	s := &Sub{V: r.Intn(5)}
	switch r.Intn(3) {
	case 0:
	case 1:
		s.L = []int{}
	default:
		s.L = []int{r.Intn(9), r.Intn(9)}
	}
	if r.P(0.2) {
		s.L = make([]int, 0, 2)
	}
	return s
}

var richShapes = false

func genContainers(r *Rng, x *Rec) {
	switch r.Intn(4) {
	case 1:
		x.Tags = []string{}
	case 2:
		x.Tags = []string{pick(r, domS), pick(r, domS)}
	case 3:
		x.Tags = make([]string, 0, 3) // empty, but with spare capacity (a buf[:0])
	}
	switch r.Intn(4) {
	case 1:
		x.Subs = []*Sub{}
	case 2:
		x.Subs = []*Sub{genSub(r), genSub(r)}
	case 3:
		x.Subs = append(make([]*Sub, 0, 4), genSub(r)) // len < cap
	}
	switch r.Intn(3) {
	case 1:
		x.M = map[string][]*Sub{}
	case 2:
		x.M = map[string][]*Sub{"a": {genSub(r)}, "b": nil, "c": {genSub(r), genSub(r)}}
	}
	if r.Bool() {
		p := ptrInt(r.Intn(100))
		x.PP = &p
	}
	if r.Bool() {
		x.AP = [2]*int{ptrInt(r.Intn(100)), nil}
	}
	if r.Bool() {
		x.AS = [2][]int{{r.Intn(9), r.Intn(9)}, nil}
	}
	n := 4
	if richShapes {
		n = 7 // struct / pointer / array values held in an interface (C14 only: a JSON round trip changes their dynamic type)
	}
	switch r.Intn(n) {
	case 4:
		x.Any = Sub{V: r.Intn(9), L: []int{r.Intn(9)}} // a struct value held in an interface
	case 5:
		x.Any = &Sub{V: r.Intn(9), L: []int{r.Intn(9), 2}}
	case 6:
		x.Any = [2]*Sub{{V: 1, L: []int{3}}, nil}
	case 1:
		x.Any = "str"
	case 2:
		x.Any = []interface{}{"a", float64(r.Intn(9)), map[string]interface{}{"k": []interface{}{1.5}}}
	case 3:
		x.Any = map[string]interface{}{"l": []interface{}{"x", "y"}, "n": float64(r.Intn(9))}
	}
}

type RecOpts struct {
	Simple     bool // no containers
	ValidOnly  bool
	InvalidP   float64
	ExtremeOff bool
}

// genRec draws a fresh object (no uuid) for slot tag.
func genRec(r *Rng, tag int, o RecOpts) *Rec {
	x := &Rec{Tag: tag}
	x.I, x.I8, x.I16, x.I32, x.I64 = pick(r, domI), pick(r, domI8), pick(r, domI16), pick(r, domI32), pick(r, domI64)
	x.U, x.U8, x.U16, x.U32, x.U64 = pick(r, domU), pick(r, domU8), pick(r, domU16), pick(r, domU32), pick(r, domU64)
	x.F32, x.F64 = pick(r, domF32), pick(r, domF64)
	x.S, x.T = pick(r, domS), pick(r, domT)
	x.Up, x.Lo = pick(r, domCase), pick(r, domCase)
	x.K, x.KS = pick(r, domK), pick(r, domKS)
	if r.Bool() {
		x.O = r.Intn(4)
	}
	x.N = genNested(r)
	x.Emb = Emb{X: pick(r, domI), Y: pick(r, domCase)}
	if !o.Simple {
		genContainers(r, x)
	}
	x.Tr = pick(r, domTr)
	if r.P(0.2) {
		x.Chk |= 8
	}
	if r.P(0.2) {
		x.Chk |= 16
	}
	if !o.ValidOnly {
		x.Chk |= r.Intn(8)
		if r.P(o.InvalidP) {
			x.Bad = 1 + r.Intn(3)
		}
	}
	return x
}

// mutateRec changes a few fields of x in place (an update).
func mutateRec(r *Rng, x *Rec, o RecOpts) {
	n := 1 + r.Intn(4)
	for i := 0; i < n; i++ {
		switch r.Intn(22) {
		case 0:
			x.I = pick(r, domI)
		case 1:
			x.I8 = pick(r, domI8)
		case 2:
			x.I64 = pick(r, domI64)
		case 3:
			x.U8 = pick(r, domU8)
		case 4:
			x.U64 = pick(r, domU64)
		case 5:
			x.F32 = pick(r, domF32)
		case 6:
			x.F64 = pick(r, domF64)
		case 7:
			x.S = pick(r, domS)
		case 8:
			x.T = pick(r, domT)
		case 9:
			x.Up = pick(r, domCase)
		case 10:
			x.Lo = pick(r, domCase)
		case 11:
			x.K = pick(r, domK)
		case 12:
			x.KS = pick(r, domKS)
		case 13:
			x.N = genNested(r)
		case 14:
			x.Emb = Emb{X: pick(r, domI), Y: pick(r, domCase)}
		case 15:
			x.O = r.Intn(4)
		case 16:
			if !o.Simple {
				genContainers(r, x)
			}
		case 17:
			x.Tr = pick(r, domTr)
		case 18:
			x.I16, x.I32 = pick(r, domI16), pick(r, domI32)
		case 19:
			x.U, x.U16, x.U32 = pick(r, domU), pick(r, domU16), pick(r, domU32)
		case 20:
			if !o.ValidOnly {
				x.Chk = x.Chk&24 | r.Intn(8)
			} else {
				x.Chk ^= pick(r, []int{8, 16})
			}
		case 21:
			if !o.ValidOnly && r.P(o.InvalidP) {
				x.Bad = 1
			}
		}
	}
}
