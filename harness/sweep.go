package main

import (
	"fmt"
	"math"
	"sort"
	"strings"
	"time"

	"github.com/0xrawsec/sod"
)

// ---- observation sweep (M1) ----

// ReadSweep compares every read path with the model (C01 clauses).
// absentRounds: how many times each absent lookup is repeated.
func (w *World) ReadSweep() {
	if w.failed() {
		return
	}
	stats.Count("read_sweeps", 1)
	m := w.m
	live := m.Live()
	// Count
	var n int
	var err error
	if w.call("Count", func() { n, err = w.db.Count(&Rec{}) }) {
		return
	}
	if err != nil || n != len(live) {
		w.fail("count-mismatch", "Count", "-", fmt.Sprintf("Count=%d err=%v model=%d", n, err, len(live)))
		return
	}
	// All
	var objs []sod.Object
	if w.call("All", func() { objs, err = w.db.All(&Rec{}) }) {
		return
	}
	if err != nil {
		w.fail("read-error", "All", "-", err.Error())
		return
	}
	w.compareList("All", objs)
	// AssignAll
	var recs []*Rec
	if w.call("AssignAll", func() { err = w.db.AssignAll(&Rec{}, &recs) }) {
		return
	}
	if err != nil {
		w.fail("read-error", "AssignAll", "-", err.Error())
		return
	}
	w.compareRecs("AssignAll", recs)
	// per stored uuid
	for _, u := range live {
		w.checkStored(u)
		if w.failed() {
			return
		}
	}
	// absent lookups, each twice
	abs := []string{w.absentUUID()}
	if len(m.deleted) > 0 {
		abs = append(abs, m.deleted[len(m.deleted)-1])
		if len(m.deleted) > 1 {
			abs = append(abs, m.deleted[w.rng.Intn(len(m.deleted))])
		}
	}
	for _, u := range abs {
		if _, ok := m.objs[u]; ok {
			continue
		}
		w.checkAbsent(u)
		if w.failed() {
			return
		}
	}
	// a failed read must not create anything
	if w.call("Count", func() { n, err = w.db.Count(&Rec{}) }) {
		return
	}
	if err != nil || n != len(live) {
		w.fail("count-mismatch", "Count(after absent lookups)", "-", fmt.Sprintf("Count=%d err=%v model=%d", n, err, len(live)))
	}
	stats.Count("read_comparisons", int64(3+3*len(live)+4*len(abs)))
}

func (w *World) compareList(api string, objs []sod.Object) {
	recs, ok := objsToRecs(objs)
	if !ok {
		w.fail("read-badtype", api, "-", "result holds a non-*Rec or nil object")
		return
	}
	w.compareRecs(api, recs)
}

func (w *World) compareRecs(api string, recs []*Rec) {
	got := map[string]bool{}
	for _, r := range recs {
		u := r.UUID()
		if got[u] {
			w.fail("read-duplicate", api, "-", "uuid returned twice: "+short(u))
			return
		}
		got[u] = true
		want, ok := w.m.objs[u]
		if !ok {
			w.fail("read-extra", api, "-", fmt.Sprintf("returned %s which is not stored (deleted or never accepted): %s", short(u), canonJSON(r)))
			return
		}
		if g, e := canonJSON(r), canonJSON(want); g != e {
			w.fail("read-stale", api, "-", fmt.Sprintf("uuid %s\n got  %s\n want %s", short(u), g, e))
			return
		}
	}
	for u := range w.m.objs {
		if !got[u] {
			w.fail("read-missing", api, "-", "stored object not returned: "+short(u))
			return
		}
	}
}

func (w *World) checkStored(u string) {
	want := w.m.objs[u]
	var o sod.Object
	var err error
	in := &Rec{}
	in.Initialize(u)
	if w.call("Get", func() { o, err = w.db.Get(in) }) {
		return
	}
	if err != nil {
		w.fail("read-missing", "Get", "-", fmt.Sprintf("%s: %v", short(u), err))
		return
	}
	if r, ok := o.(*Rec); !ok || r == nil {
		w.fail("read-badtype", "Get", "-", fmt.Sprintf("%T", o))
		return
	} else if g, e := canonJSON(r), canonJSON(want); g != e || r.UUID() != u {
		w.fail("read-stale", "Get", "-", fmt.Sprintf("uuid %s (got uuid %s)\n got  %s\n want %s", short(u), short(r.UUID()), g, e))
		return
	}
	// a caller refreshing an object it already holds and has changed since: the read reports the
	// stored values, not a mixture of the file's and the caller's (fields the file omits, map keys)
	in2 := &Rec{O: 7777, S: "caller's", Tags: []string{"caller's"}, M: map[string][]*Sub{"caller's": nil}, N: &Nested{S: "caller's"}}
	in2.Initialize(u)
	if w.call("Get", func() { o, err = w.db.Get(in2) }) {
		return
	}
	if err != nil {
		w.fail("read-missing", "Get(caller's object)", "-", fmt.Sprintf("%s: %v", short(u), err))
		return
	}
	if r, ok := o.(*Rec); !ok || r == nil {
		w.fail("read-badtype", "Get(caller's object)", "-", fmt.Sprintf("%T", o))
		return
	} else if g, e := canonJSON(r), canonJSON(want); g != e || r.UUID() != u {
		w.fail("read-mixed-with-caller-values", "Get(caller's object)", "-", fmt.Sprintf("uuid %s\n got  %s\n want %s", short(u), g, e))
		return
	}
	if w.call("GetByUUID", func() { o, err = w.db.GetByUUID(&Rec{}, u) }) {
		return
	}
	if err != nil {
		w.fail("read-missing", "GetByUUID", "-", fmt.Sprintf("%s: %v", short(u), err))
		return
	}
	if r, ok := o.(*Rec); !ok || r == nil {
		w.fail("read-badtype", "GetByUUID", "-", fmt.Sprintf("%T", o))
		return
	} else if g, e := canonJSON(r), canonJSON(want); g != e || r.UUID() != u {
		w.fail("read-stale", "GetByUUID", "-", fmt.Sprintf("uuid %s\n got  %s\n want %s", short(u), g, e))
		return
	}
	var ok bool
	x := &Rec{}
	x.Initialize(u)
	if w.call("Exist", func() { ok, err = w.db.Exist(x) }) {
		return
	}
	if err != nil || !ok {
		w.fail("exist-false", "Exist", "-", fmt.Sprintf("stored %s: ok=%v err=%v", short(u), ok, err))
	}
}

func (w *World) checkAbsent(u string) {
	for round := 1; round <= 2; round++ {
		var o sod.Object
		var err error
		in := &Rec{}
		in.Initialize(u)
		if w.call("Get", func() { o, err = w.db.Get(in) }) {
			return
		}
		if !isNotFound(err) {
			w.fail("absent-lookup-succeeds", fmt.Sprintf("Get#%d", round), "-", fmt.Sprintf("absent %s: err=%v obj=%v", short(u), err, o != nil))
			return
		}
		if w.call("GetByUUID", func() { o, err = w.db.GetByUUID(&Rec{}, u) }) {
			return
		}
		if !isNotFound(err) {
			w.fail("absent-lookup-succeeds", fmt.Sprintf("GetByUUID#%d", round), "-", fmt.Sprintf("absent %s: err=%v", short(u), err))
			return
		}
		var ok bool
		x := &Rec{}
		x.Initialize(u)
		if w.call("Exist", func() { ok, err = w.db.Exist(x) }) {
			return
		}
		if ok || (err != nil && !isNotFound(err)) {
			w.fail("exist-true", fmt.Sprintf("Exist#%d", round), "-", fmt.Sprintf("absent %s: ok=%v err=%v", short(u), ok, err))
			return
		}
	}
}

// ---- probes ----

func neighboursInt(v int64) []int64 {
	out := []int64{v}
	if v > math.MinInt64 {
		out = append(out, v-1)
	}
	if v < math.MaxInt64 {
		out = append(out, v+1)
	}
	return out
}

// typedProbe converts a key-level value into a Go value of the field's type.
func typedInt(f *fieldInfo, v int64) (interface{}, bool) {
	switch f.GoType {
	case "int":
		return int(v), true
	case "int8":
		if v < math.MinInt8 || v > math.MaxInt8 {
			return int64(v), true // other Go type of the same key kind
		}
		return int8(v), true
	case "int16":
		if v < math.MinInt16 || v > math.MaxInt16 {
			return int64(v), true
		}
		return int16(v), true
	case "int32":
		if v < math.MinInt32 || v > math.MaxInt32 {
			return int64(v), true
		}
		return int32(v), true
	case "int64":
		return v, true
	case "time.Time":
		return time.Unix(0, v).UTC(), true
	}
	return nil, false
}

func typedUint(f *fieldInfo, v uint64) interface{} {
	switch f.GoType {
	case "uint":
		return uint(v)
	case "uint8":
		if v > math.MaxUint8 {
			return v
		}
		return uint8(v)
	case "uint16":
		if v > math.MaxUint16 {
			return v
		}
		return uint16(v)
	case "uint32":
		if v > math.MaxUint32 {
			return v
		}
		return uint32(v)
	}
	return v
}

// probesFor builds the probe set of a field: stored values, neighbours, type
// extremes and absent values (DESIGN 3.3).
func (w *World) probesFor(f *fieldInfo, objs map[string]*Rec) []interface{} {
	var out []interface{}
	seen := map[string]bool{}
	add := func(v interface{}) {
		k, ok := keyOf(v)
		if !ok {
			return
		}
		_ = k
		s := fmt.Sprintf("%T|%v", v, v)
		if !seen[s] {
			seen[s] = true
			out = append(out, v)
		}
	}
	// deterministic order: creation order of the objects, then a stable sort
	var keys []Key
	for _, u := range w.m.order {
		if x, ok := objs[u]; ok {
			if k, ok := recKey(x, f.Path); ok {
				keys = append(keys, k)
			}
		}
	}
	sort.SliceStable(keys, func(i, j int) bool { return cmpKey(keys[i], keys[j]) < 0 })
	switch f.Kind {
	case "int64":
		if f.IsTime {
			for _, k := range keys {
				for _, n := range neighboursInt(k.I) {
					add(time.Unix(0, n).UTC())
				}
			}
			add(time.Time{})
			add(time.Unix(0, math.MinInt64).UTC())
			add(time.Unix(0, math.MaxInt64).UTC())
			add(time.Date(2021, 3, 4, 5, 6, 7, 123456789, time.FixedZone("p", -3600)).Add(-time.Hour))
			break
		}
		for _, k := range keys {
			for _, n := range neighboursInt(k.I) {
				if v, ok := typedInt(f, n); ok {
					add(v)
				}
			}
		}
		for _, n := range []int64{math.MinInt64, math.MaxInt64, 0, 1<<53 + 1, -(1<<53 + 1), 42} {
			if v, ok := typedInt(f, n); ok {
				add(v)
			}
		}
	case "uint64":
		for _, k := range keys {
			add(typedUint(f, k.U))
			if k.U > 0 {
				add(typedUint(f, k.U-1))
			}
			if k.U < math.MaxUint64 {
				add(typedUint(f, k.U+1))
			}
		}
		for _, n := range []uint64{0, math.MaxUint64, 1<<53 + 1, 42} {
			add(typedUint(f, n))
		}
	case "float64":
		conv := func(v float64) interface{} {
			if f.GoType == "float32" && float64(float32(v)) == v {
				return float32(v)
			}
			return v
		}
		for _, k := range keys {
			add(conv(k.F))
			add(conv(math.Nextafter(k.F, math.Inf(1))))
			add(conv(math.Nextafter(k.F, math.Inf(-1))))
		}
		for _, v := range []float64{-math.MaxFloat64, math.MaxFloat64, 5e-324, 0, math.Copysign(0, -1), 0.1, math.Inf(1), math.Inf(-1)} {
			add(conv(v))
		}
		add(math.NaN()) // well typed, unordered
		if f.GoType == "float32" {
			add(float32(math.NaN()))
		}
	case "string":
		for _, k := range keys {
			add(k.S)
			add(k.S + "\x00")
			if len(k.S) > 0 {
				add(k.S[:len(k.S)-1])
			}
			add(strings.ToUpper(k.S))
			add(strings.ToLower(k.S))
		}
		add("")
		add("\xff\xff")
		add("nope")
	}
	return out
}

var regexProbes = []string{"", "^a", "b$", "(?i)abc", "^$", ".", "[A-Z]+", "k[0-2]", "x y", "^\\s"}

// SearchOne runs one search and compares it with the model; returns the
// collected uuids.
func (w *World) SearchOne(q Query) {
	want, evaluable := w.m.Eval(q)
	if !evaluable {
		return
	}
	stats.Count("searches", 1)
	var s *sod.Search
	var objs []sod.Object
	var err error
	var ln int
	if w.call("Search", func() {
		s = w.db.Search(&Rec{}, q.Path, q.Op, q.Probe)
		err = s.Err()
		if err != nil {
			return
		}
		ln = s.Len()
		objs, err = s.Collect()
	}) {
		return
	}
	idx := "unindexed"
	if w.cfg.indexed(q.Path) {
		idx = "indexed"
	}
	api := fmt.Sprintf("Search(%s,%s)", idx, q.Op)
	if err != nil {
		w.fail("search-error", api, "-", fmt.Sprintf("%s: unexpected error %v (model: %d matches)", q, err, len(want)))
		return
	}
	recs, ok := objsToRecs(objs)
	if !ok {
		w.fail("read-badtype", api, "-", "non-*Rec result")
		return
	}
	got := uuidsOf(recs)
	if ln != len(want) {
		w.fail("search-len", api, "-", fmt.Sprintf("%s: Len=%d model=%d", q, ln, len(want)))
		return
	}
	dup := map[string]bool{}
	for _, u := range got {
		if dup[u] {
			w.fail("search-duplicate", api, "-", fmt.Sprintf("%s: %s twice", q, short(u)))
			return
		}
		dup[u] = true
	}
	if !sameSet(want, got) {
		w.fail("search-mismatch", api, "-", fmt.Sprintf("%s\n got  %s\n want %s", q, shortList(sortedCopy(got)), shortList(setKeys(want))))
		return
	}
	if w.storeWant || true {
		for _, r := range recs {
			if g, e := canonJSON(r), canonJSON(w.m.objs[r.UUID()]); g != e {
				w.fail("search-stale-object", api, "-", fmt.Sprintf("%s uuid %s\n got  %s\n want %s", q, short(r.UUID()), g, e))
				return
			}
		}
	}
}

// queriesFor lists the search matrix for the given paths.
func (w *World) queriesFor(paths []string) []Query {
	var qs []Query
	for _, p := range paths {
		f := recFieldByPath[p]
		if f == nil {
			continue
		}
		for _, pr := range w.probesFor(f, w.m.objs) {
			for _, op := range opsAll[:6] {
				qs = append(qs, Query{p, op, pr})
			}
		}
		if f.Kind == "string" {
			for _, rx := range regexProbes {
				qs = append(qs, Query{p, "~=", rx})
			}
		}
	}
	return qs
}

func allSearchPaths() []string {
	out := make([]string, 0, len(recFields))
	for _, f := range recFields {
		out = append(out, f.Path)
	}
	return out
}

// SearchSweep runs n PRNG-chosen queries of the matrix (n<=0: the full matrix).
func (w *World) SearchSweep(n int) {
	if w.failed() {
		return
	}
	qs := w.queriesFor(allSearchPaths())
	if n > 0 && n < len(qs) {
		for i := 0; i < n && !w.failed(); i++ {
			w.SearchOne(qs[w.rng.Intn(len(qs))])
		}
		return
	}
	for _, q := range qs {
		w.SearchOne(q)
		if w.failed() {
			return
		}
	}
}

// Invariants evaluates the structural invariant hook (M2) when available.
func (w *World) Invariants(classes ...string) {
	if w.failed() || !hasInvariants() {
		return
	}
	stats.Count("invariant_evaluations", 1)
	for _, s := range invariants(w.db) {
		for _, c := range classes {
			if strings.HasPrefix(s, c+":") {
				w.fail("invariant-"+c, "-", "-", s)
				return
			}
		}
	}
}

// evaluable keeps the queries the model can evaluate (e.g. drops a pattern
// that the path's case constraint turns into an invalid one).
func (w *World) evaluable(qs []Query) []Query {
	out := qs[:0:0]
	for _, q := range qs {
		if _, ok := w.m.Eval(q); ok {
			out = append(out, q)
		}
	}
	return out
}

// IndexedEqualitySweep: for every indexed field and every stored object, the
// equality search on the object's own value must return exactly the model's
// set (finds any stale index entry, which a sampled sweep can miss).
func (w *World) IndexedEqualitySweep() {
	if w.failed() {
		return
	}
	var paths []string
	for p := range w.cfg.Fields {
		if w.cfg.indexed(p) {
			paths = append(paths, p)
		}
	}
	sort.Strings(paths)
	for _, p := range paths {
		seen := map[string]bool{}
		for _, u := range w.m.Live() {
			v, ok := leaf(w.m.objs[u], p)
			if !ok {
				continue
			}
			k, _ := keyOf(v)
			if seen[k.String()] {
				continue
			}
			seen[k.String()] = true
			w.SearchOne(Query{p, "=", v})
			if w.failed() {
				return
			}
		}
	}
}
