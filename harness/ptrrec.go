package main

import (
	"errors"
	"fmt"
	"sort"
	"strings"

	"github.com/0xrawsec/sod"
)

// PtrRec: optional (pointer) string fields. Struct tags are not read on pointer fields, so their
// upper / lower constraints come from a custom schema; they cannot be indexed (sod refuses the
// declaration), which makes them the unindexed-only corner of C15 / C16. A nil pointer reads as "".
// The type lives in its own collection next to Rec and is not part of the golden corpus.

type PNest struct {
	PS *string
	S  string
}

// PName: a named string type is a string as far as case constraints go (it can be neither indexed
// nor searched: sod answers "unknown key type", which is not judged here).
type PName string

// PEmb is embedded through a pointer: its field is promoted (PtrRec.EY) and unreachable while the
// pointer is nil.
type PEmb struct{ EY int }

type PtrRec struct {
	sod.Item
	*PEmb
	K  int
	PS *string
	PN *PNest
	V  PNest
	NS PName
}

var ptrPaths = []string{"PS", "PN.PS", "PN.S", "V.PS", "V.S", "NS"}

// ptrSearchPaths: the paths of ptrPaths a search can be evaluated on.
var ptrSearchPaths = []string{"PS", "PN.PS", "PN.S", "V.PS", "V.S"}

func (p *PtrRec) leaf(path string) string {
	d := func(s *string) string {
		if s == nil {
			return ""
		}
		return *s
	}
	switch path {
	case "PS":
		return d(p.PS)
	case "PN.PS":
		if p.PN == nil {
			return ""
		}
		return d(p.PN.PS)
	case "PN.S":
		if p.PN == nil {
			return ""
		}
		return p.PN.S
	case "V.PS":
		return d(p.V.PS)
	case "V.S":
		return p.V.S
	case "NS":
		return string(p.NS)
	}
	panic("harness: PtrRec path " + path)
}

// Validate depends on values as they are after the schema's case transforms: the mixed-case
// spelling passes, both canonical spellings do not.
func (p *PtrRec) Validate() error {
	for _, path := range ptrPaths {
		if v := p.leaf(path); v == "FORBIDDEN" || v == "forbidden" {
			return errors.New("forbidden value in " + path)
		}
	}
	return nil
}

var domPtr = []string{"", "abc", "ABC", "aBc", "Forbidden", "Forbidden", "fOrBiDdEn", "x", "X", "straße", "Σσς"}

func ptrClone(x *PtrRec) *PtrRec {
	c := func(s *string) *string {
		if s == nil {
			return nil
		}
		v := *s
		return &v
	}
	y := &PtrRec{Item: x.Item, PEmb: x.PEmb, K: x.K, PS: c(x.PS), V: PNest{PS: c(x.V.PS), S: x.V.S}, NS: x.NS}
	if x.PN != nil {
		y.PN = &PNest{PS: c(x.PN.PS), S: x.PN.S}
	}
	return y
}

func ptrBrief(x *PtrRec) string {
	var parts []string
	for _, p := range ptrPaths {
		parts = append(parts, fmt.Sprintf("%s=%q", p, x.leaf(p)))
	}
	return fmt.Sprintf("K=%d %s", x.K, strings.Join(parts, " "))
}

// ptrScenario runs a short history on a PtrRec collection of w's database. gate: judge the
// Validate gate (C15); search: judge case-insensitive searches (C16). Stored == transformed is
// judged in both. Returns the number of judged observations.
func (w *World) ptrScenario(gate, search bool) int {
	r := w.rng
	cons := map[string]string{}
	fds := sod.FieldDescriptors(&PtrRec{})
	var desc []string
	for _, p := range ptrPaths {
		k := sod.Constraints{}
		switch r.Intn(4) {
		case 0, 1:
			k.Upper, cons[p] = true, "U"
		case 2:
			k.Lower, cons[p] = true, "L"
		}
		if p == "PN.S" || p == "V.S" {
			k.Index = r.P(0.4)
		}
		if err := fds.Constraint(p, k); err != nil {
			panic("harness: " + err.Error())
		}
		desc = append(desc, fmt.Sprintf("%s:%s/%v", p, cons[p], k.Index))
	}
	canon := func(p, s string) string {
		switch cons[p] {
		case "U":
			return strings.ToUpper(s)
		case "L":
			return strings.ToLower(s)
		}
		return s
	}
	sch := sod.NewCustomSchema(fds, w.cfg.Ext)
	sch.Cache, sch.Compress = w.cfg.Cache, w.cfg.Compress
	if w.cfg.Async != 0 {
		sch.Asynchrone(w.cfg.Threshold, w.cfg.Timeout)
	}
	w.logf("PtrRec collection: %s", strings.Join(desc, " "))
	var err error
	if w.call("Create(PtrRec)", func() { err = w.db.Create(&PtrRec{}, sch) }) {
		return 0
	}
	if err != nil {
		w.fail("create-failed", "Create(PtrRec)", "-", err.Error())
		return 0
	}
	clockSettle()
	model := map[string]*PtrRec{} // uuid -> canonical stored value
	judged := 0
	gen := func(tag int) *PtrRec {
		sp := func() *string {
			if r.P(0.25) {
				return nil
			}
			v := pick(r, domPtr)
			return &v
		}
		x := &PtrRec{K: tag, PS: sp(), V: PNest{PS: sp(), S: pick(r, domPtr)}, NS: PName(pick(r, domPtr))}
		if r.P(0.75) {
			x.PN = &PNest{PS: sp(), S: pick(r, domPtr)}
		}
		return x
	}
	want := func(x *PtrRec) *PtrRec {
		y := ptrClone(x)
		set := func(p string, s *string) {
			if s != nil {
				*s = canon(p, *s)
			}
		}
		set("PS", y.PS)
		set("V.PS", y.V.PS)
		y.V.S = canon("V.S", y.V.S)
		y.NS = PName(canon("NS", string(y.NS)))
		if y.PN != nil {
			set("PN.PS", y.PN.PS)
			y.PN.S = canon("PN.S", y.PN.S)
		}
		return y
	}
	same := func(a, b *PtrRec) bool {
		if (a.PS == nil) != (b.PS == nil) || (a.V.PS == nil) != (b.V.PS == nil) || (a.PN == nil) != (b.PN == nil) {
			return false
		}
		if a.PN != nil && (a.PN.PS == nil) != (b.PN.PS == nil) {
			return false
		}
		if a.K != b.K {
			return false
		}
		for _, p := range ptrPaths {
			if a.leaf(p) != b.leaf(p) {
				return false
			}
		}
		return true
	}
	readBack := func(when string) {
		us := make([]string, 0, len(model))
		for u := range model {
			us = append(us, u)
		}
		sort.Strings(us)
		for _, u := range us {
			var o sod.Object
			var e error
			if w.call("GetByUUID(PtrRec)", func() { o, e = w.db.GetByUUID(&PtrRec{}, u) }) {
				return
			}
			got, ok := o.(*PtrRec)
			if e != nil || !ok || got == nil {
				w.fail("ptr-read-error", "GetByUUID", "-", fmt.Sprintf("%s: stored PtrRec K=%d: err=%v", when, model[u].K, e))
				return
			}
			judged++
			if !same(got, model[u]) {
				w.fail("ptr-stored-untransformed", "GetByUUID", when, fmt.Sprintf("constraints %s\n stored %s\n want   %s", strings.Join(desc, " "), ptrBrief(got), ptrBrief(model[u])))
				return
			}
		}
		var n int
		var e error
		if w.call("Count(PtrRec)", func() { n, e = w.db.Count(&PtrRec{}) }) {
			return
		}
		if e != nil || n != len(model) {
			w.fail("ptr-count", "Count", when, fmt.Sprintf("Count=%d err=%v, %d objects were accepted", n, e, len(model)))
		}
	}
	steps := 4 + r.Intn(6)
	tag := 0
	for i := 0; i < steps && !w.failed(); i++ {
		w.step++
		// a batch of 1..3 objects (new, or updates of stored ones)
		n := 1 + r.Intn(3)
		var batch []*PtrRec
		var us []string
		for u := range model {
			us = append(us, u)
		}
		sort.Strings(us)
		for j := 0; j < n; j++ {
			tag++
			x := gen(tag)
			if len(us) > 0 && r.P(0.3) {
				u := us[r.Intn(len(us))]
				dup := false
				for _, b := range batch {
					dup = dup || b.UUID() == u
				}
				if !dup {
					x.Initialize(u)
				}
			}
			batch = append(batch, x)
		}
		wants := make([]*PtrRec, len(batch))
		invalidAt := -1
		for j, x := range batch {
			wants[j] = want(x)
			if invalidAt < 0 && wants[j].Validate() != nil {
				invalidAt = j
			}
		}
		path := r.Intn(3)
		if len(batch) > 1 && path == 0 {
			path = 1
		}
		api := []string{"InsertOrUpdate", "InsertOrUpdateMany", "InsertOrUpdateBulk"}[path]
		for j, x := range batch {
			w.logf("%s(PtrRec)[%d] %s uuid=%s", api, j, ptrBrief(x), short(x.UUID()))
		}
		var cnt int
		err = nil
		if w.call(api+"(PtrRec)", func() {
			switch path {
			case 0:
				err = w.db.InsertOrUpdate(batch[0])
			case 1:
				objs := make([]sod.Object, len(batch))
				for j := range batch {
					objs[j] = batch[j]
				}
				cnt, err = w.db.InsertOrUpdateMany(objs...)
			default:
				c := make(chan sod.Object, len(batch))
				for j := range batch {
					c <- batch[j]
				}
				close(c)
				cnt, err = w.db.InsertOrUpdateBulk(c, len(batch)) // one chunk
			}
		}) {
			return judged
		}
		w.logf(" -> n=%d %s", cnt, errClass(err))
		judged++
		switch {
		case invalidAt >= 0:
			if err == nil {
				if gate {
					w.fail("ptr-invalid-accepted", api, "-", fmt.Sprintf("constraints %s: member %d is invalid once transformed (%s) and was accepted", strings.Join(desc, " "), invalidAt, ptrBrief(wants[invalidAt])))
				} else {
					w.incon = "invalid PtrRec accepted (C15 territory)"
				}
				return judged
			}
			if gate && errClass(err) != "invalid" {
				w.fail("ptr-invalid-error-class", api, "-", fmt.Sprintf("invalid member refused with %v", err))
				return judged
			}
			// nothing of the batch is visible: new members by uuid, stored ones keep their value
			for j, x := range batch {
				u := x.UUID()
				if u == "" {
					continue
				}
				if _, stored := model[u]; stored || wants[j].Validate() == nil {
					continue
				}
				var o sod.Object
				var e error
				if w.call("GetByUUID(PtrRec)", func() { o, e = w.db.GetByUUID(&PtrRec{}, u) }) {
					return judged
				}
				if e == nil && o != nil && gate {
					w.fail("ptr-invalid-visible", api, "-", fmt.Sprintf("member %d of a refused call can be read", j))
					return judged
				}
			}
		case err != nil:
			w.fail("ptr-valid-rejected", api, "-", fmt.Sprintf("constraints %s: all members valid once transformed, call failed: %v", strings.Join(desc, " "), err))
			return judged
		default:
			for j, x := range batch {
				wants[j].Item = x.Item
				model[x.UUID()] = wants[j]
			}
		}
		readBack("live")
		if w.failed() {
			return judged
		}
		if search && len(model) > 0 {
			for q := 0; q < 4 && !w.failed(); q++ {
				p := pick(r, ptrSearchPaths)
				var us []string
				for u := range model {
					us = append(us, u)
				}
				sort.Strings(us)
				base := model[us[r.Intn(len(us))]].leaf(p)
				if r.P(0.2) {
					base = pick(r, domPtr)
				}
				probe := pick(r, caseVariants(base))
				op := pick(r, []string{"=", "=", "!="})
				wantSet := map[string]bool{}
				for u, o := range model {
					if (o.leaf(p) == canon(p, probe)) == (op == "=") {
						wantSet[u] = true
					}
				}
				var objs []sod.Object
				var e error
				chained := r.P(0.3)
				if w.call("Search(PtrRec)", func() {
					s := w.db.Search(&PtrRec{}, p, op, probe)
					if chained {
						s = w.db.Search(&PtrRec{}, "K", ">=", 0).And(p, op, probe)
					}
					objs, e = s.Collect()
				}) {
					return judged
				}
				if e != nil {
					w.fail("ptr-search-error", "Search", "-", fmt.Sprintf("%s %s %q: %v", p, op, probe, e))
					return judged
				}
				got := map[string]bool{}
				for _, o := range objs {
					got[o.UUID()] = true
				}
				judged++
				if len(objs) != len(wantSet) || !sameSet(wantSet, keysOfSet(got)) {
					w.fail("ptr-search-mismatch", "Search", "-", fmt.Sprintf("constraints %s: %s %s %q (chained=%v) returned %d objects, want %d", strings.Join(desc, " "), p, op, probe, chained, len(objs), len(wantSet)))
					return judged
				}
			}
		}
		if r.P(0.2) && !w.failed() {
			w.Reopen(false)
			if w.failed() {
				return judged
			}
			readBack("reopened")
		}
	}
	if !w.failed() {
		w.Reopen(false)
		if !w.failed() {
			readBack("reopened")
		}
	}
	return judged
}

func keysOfSet(m map[string]bool) []string {
	out := make([]string, 0, len(m))
	for k := range m {
		out = append(out, k)
	}
	sort.Strings(out)
	return out
}
