package main

// splitmix64-based deterministic PRNG; case k of seed S for property P uses
// mix(S, P, k) (DESIGN.md 3.2).
type Rng struct{ s uint64 }

func sm64(x uint64) uint64 {
	x += 0x9e3779b97f4a7c15
	z := x
	z = (z ^ (z >> 30)) * 0xbf58476d1ce4e5b9
	z = (z ^ (z >> 27)) * 0x94d049bb133111eb
	return z ^ (z >> 31)
}

func hashStr(s string) uint64 {
	h := uint64(1469598103934665603)
	for i := 0; i < len(s); i++ {
		h ^= uint64(s[i])
		h *= 1099511628211
	}
	return h
}

func NewRng(seed int64, prop string, k int) *Rng {
	return &Rng{s: sm64(uint64(seed)) ^ sm64(hashStr(prop)) ^ sm64(uint64(k)*0x2545F4914F6CDD1D+1)}
}

func (r *Rng) U64() uint64 {
	r.s += 0x9e3779b97f4a7c15
	z := r.s
	z = (z ^ (z >> 30)) * 0xbf58476d1ce4e5b9
	z = (z ^ (z >> 27)) * 0x94d049bb133111eb
	return z ^ (z >> 31)
}

func (r *Rng) Intn(n int) int {
	if n <= 0 {
		return 0
	}
	return int(r.U64() % uint64(n))
}

func (r *Rng) Bool() bool       { return r.U64()&1 == 1 }
func (r *Rng) P(p float64) bool { return float64(r.U64()>>11)/float64(1<<53) < p }
func (r *Rng) Fork() *Rng       { return &Rng{s: sm64(r.U64())} }

func pick[T any](r *Rng, xs []T) T { return xs[r.Intn(len(xs))] }
