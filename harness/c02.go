package main

import (
	"fmt"
	"strings"

	"github.com/0xrawsec/sod"
)

// C02 — Search returns exactly the matching objects (DESIGN 4/C02).

func init() {
	drivers["C02"] = &driver{cases: tierN(160, 6000), run: runC02}
}

// chain evaluates a left-deep And/Or chain on sod and folds it over the model.
func (w *World) chain(qs []Query, conns []string) {
	want, ok := w.m.Eval(qs[0])
	if !ok {
		return
	}
	desc := qs[0].String()
	for i, c := range conns {
		set, ok := w.m.Eval(qs[i+1])
		if !ok {
			return
		}
		next := map[string]bool{}
		if c == "and" {
			for u := range want {
				if set[u] {
					next[u] = true
				}
			}
		} else {
			for u := range want {
				next[u] = true
			}
			for u := range set {
				next[u] = true
			}
		}
		want = next
		desc += " " + strings.ToUpper(c) + " " + qs[i+1].String()
	}
	stats.Count("chains", 1)
	var s, s0 *sod.Search
	var objs, objs0 []sod.Object
	var err, err0 error
	var ln int
	viaOperation := w.rng.P(0.3)
	if w.call("Search.And/Or", func() {
		s = w.db.Search(&Rec{}, qs[0].Path, qs[0].Op, qs[0].Probe)
		s0 = s
		defer func() {
			// the search the chain started from still denotes its own matches
			if s0.Err() == nil {
				objs0, err0 = s0.Collect()
			}
		}()
		for i, c := range conns {
			q := qs[i+1]
			switch {
			case viaOperation:
				s = s.Operation(map[string]string{"and": pick(w.rng, []string{"and", "&&", "AND"}), "or": pick(w.rng, []string{"or", "||", "Or"})}[c], q.Path, q.Op, q.Probe)
			case c == "and":
				s = s.And(q.Path, q.Op, q.Probe)
			default:
				s = s.Or(q.Path, q.Op, q.Probe)
			}
		}
		if err = s.Err(); err != nil {
			return
		}
		ln = s.Len()
		objs, err = s.Collect()
	}) {
		return
	}
	api := "Search." + strings.Join(conns, ".")
	if err != nil {
		w.fail("chain-error", api, "-", fmt.Sprintf("%s: %v", desc, err))
		return
	}
	recs, _ := objsToRecs(objs)
	got := uuidsOf(recs)
	dup := map[string]bool{}
	for _, u := range got {
		if dup[u] {
			w.fail("chain-duplicate", api, "-", fmt.Sprintf("%s: %s twice", desc, short(u)))
			return
		}
		dup[u] = true
	}
	if ln != len(want) || !sameSet(want, got) {
		w.fail("chain-mismatch", api, "-", fmt.Sprintf("%s\n Len=%d got %s\n want %s", desc, ln, shortList(sortedCopy(got)), shortList(setKeys(want))))
		return
	}
	if want0, ok := w.m.Eval(qs[0]); ok && s0 != nil && s0.Err() == nil {
		recs0, _ := objsToRecs(objs0)
		got0 := uuidsOf(recs0)
		if err0 != nil || len(got0) != len(want0) || !sameSet(want0, got0) {
			w.fail("chain-parent-changed", api, "-", fmt.Sprintf("%s: the first search collected after the chain was derived from it: err=%v got %s want %s", desc, err0, shortList(sortedCopy(got0)), shortList(setKeys(want0))))
		}
	}
}

func (w *World) allUUIDsMatchModel(api string) {
	var objs []sod.Object
	var err error
	if w.call("All", func() { objs, err = w.db.All(&Rec{}) }) {
		return
	}
	if err != nil {
		w.fail("read-error", api, "-", err.Error())
		return
	}
	recs, _ := objsToRecs(objs)
	got := uuidsOf(recs)
	want := map[string]bool{}
	for u := range w.m.objs {
		want[u] = true
	}
	if !sameSet(want, got) {
		w.fail("search-delete-mismatch", api, "-", fmt.Sprintf("collection after the call: got %s want %s", shortList(sortedCopy(got)), shortList(setKeys(want))))
	}
}

func runC02(k int, rng *Rng) CaseResult {
	cfg := genConfig(rng, GenOpts{IndexBias: 0.5})
	clockNewCase(clockModeFor(cfg))
	installHooks(stdHooks())
	w := NewWorld("C02", rng, cfg, caseDir(k, "c02"))
	defer w.Cleanup()
	if !w.OpenCreate() {
		return w.finish(nil, false, nil)
	}
	// content produced by a history (updates move objects inside indexes)
	shape := k % 8
	o := HistOpts{Steps: 6 + rng.Intn(25), MaxObjs: 12, Rec: RecOpts{ValidOnly: true, Simple: true},
		Mix: Mix{Ins: 40, Upd: 35, Noop: 2, Del: 10, Many: 5, SDel: 3, Reopen: 4, Flush: 1, Tick: 1}}
	switch shape {
	case 0: // empty collection
		o.Steps = 0
	case 1: // one element
		o.Steps = 1
		o.Mix = Mix{Ins: 1}
	}
	w.Run(o)
	if shape == 2 && !w.failed() {
		// all-equal shape: every stored object gets the same values on the searched fields
		live := w.m.Live()
		for _, u := range live {
			x := w.callerCopy(u)
			x.I, x.I8, x.F64, x.S, x.U64 = 1, 5, 1.5, "ab", 1
			w.Put(x, "update")
		}
	}
	queries := 0
	if !w.failed() {
		qs := w.queriesFor(allSearchPaths())
		queries = len(qs)
		var firstQ *Query
		for i := range qs {
			if w.failed() {
				break
			}
			if firstQ == nil {
				firstQ = &qs[i]
			}
			w.SearchOne(qs[i])
		}
		w.Invariants("index")
		// chains
		nch := 40
		for i := 0; i < nch && !w.failed() && len(qs) > 0; i++ {
			n := 2 + rng.Intn(3)
			cq := make([]Query, n)
			for j := range cq {
				cq[j] = qs[rng.Intn(len(qs))]
			}
			conns := make([]string, n-1)
			for j := range conns {
				conns[j] = pick(rng, []string{"and", "or"})
			}
			w.chain(cq, conns)
			if i%8 == 7 {
				w.Invariants("index")
				// a query must be read-only: re-run earlier queries
				if firstQ != nil {
					w.SearchOne(*firstQ)
				}
				w.SearchOne(qs[rng.Intn(len(qs))])
			}
		}
		w.Invariants("index")
		// search-delete, then the collection must be exactly the model
		for i := 0; i < 3 && !w.failed() && w.m.Len() > 0; i++ {
			q := qs[rng.Intn(len(qs))]
			w.SearchDelete(q)
			if !w.failed() {
				w.allUUIDsMatchModel("Search.Delete")
				w.Invariants("index")
				w.SearchSweep(30)
			}
		}
	}
	var sample interface{}
	if k < sampleMax {
		sample = map[string]interface{}{"config": cfg.String(), "content_ops": w.absOps, "queries_in_matrix": queries, "objects": w.m.Len()}
	}
	return w.finish(append(w.absOps, fmt.Sprint(shape)), queries > 0, sample)
}
