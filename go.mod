module verif

go 1.23

require (
	github.com/0xrawsec/sod v0.0.0
	github.com/anishathalye/porcupine v1.3.0
)

require github.com/google/uuid v1.3.0 // indirect

replace github.com/0xrawsec/sod => /repo
